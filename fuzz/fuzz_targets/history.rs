#![no_main]
use libfuzzer_sys::fuzz_target;

fuzz_target!(|data: &[u8]| {
    if let Err(m) = vharness::fuzzsupport::history_target(data) {
        panic!("VIOLATION {m}");
    }
});

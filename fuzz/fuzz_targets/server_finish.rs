#![no_main]
use libfuzzer_sys::fuzz_target;

fuzz_target!(|data: &[u8]| {
    if let Err(m) = vharness::fuzzsupport::server_finish_target(data) {
        panic!("VIOLATION {m}");
    }
});

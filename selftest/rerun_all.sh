#!/bin/bash
# Re-runs all 19 quick checks against every seeded change with the CURRENT harness -> seeded/<name>/checks_final.log
# usage: rerun_all.sh [lanes]
cd /verif/seeded
ALL="C01 C02 C03 C04 C05 C06 C07 C08 C09 C10 C11 C12 C13 C14 C15 C16 C17 C18 C19"
LANES="${1:-3}"; i=0; rm -f /tmp/vfin.lane.*
for d in C*-*; do lane=$((i % LANES)); i=$((i+1)); echo "$d" >> /tmp/vfin.lane.$lane; done
for lane in $(seq 0 $((LANES-1))); do
  ( while read -r d; do
      VMUT_TARGET_DIR=/tmp/vfin-target-$lane /verif/selftest/run_mutant.sh /verif/seeded/$d/patch.diff quick $ALL > /verif/seeded/$d/checks_final.log 2>&1
    done < /tmp/vfin.lane.$lane; rm -rf /tmp/vfin-target-$lane ) &
done
wait
rm -f /tmp/vfin.lane.*
echo FINAL-DONE

#!/bin/bash
# Re-runs all 19 quick checks against the seeded changes matching a glob with the CURRENT harness -> checks_final.log
# usage: rerun_round.sh '<glob under seeded/>' [lanes]      e.g. rerun_round.sh 'C*-G' 3
cd /verif/seeded
ALL="C01 C02 C03 C04 C05 C06 C07 C08 C09 C10 C11 C12 C13 C14 C15 C16 C17 C18 C19"
LANES="${2:-3}"; i=0; T="$(mktemp -d /tmp/vrr.XXXXXX)"
for d in $1; do lane=$((i % LANES)); i=$((i+1)); echo "$d" >> $T/lane.$lane; done
for lane in $(seq 0 $((LANES-1))); do
  [ -f $T/lane.$lane ] || continue
  ( while read -r d; do
      VMUT_REV=WORKTREE VMUT_TARGET_DIR=$T/target-$lane /verif/selftest/run_mutant.sh /verif/seeded/$d/patch.diff quick $ALL > /verif/seeded/$d/checks_final.log 2>&1
    done < $T/lane.$lane; rm -rf $T/target-$lane ) &
done
wait
rm -rf "$T"
echo ROUND-DONE

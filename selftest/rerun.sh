#!/bin/bash
# usage: rerun.sh <seeded dir name, e.g. C02-A> <ID>...   -> appends to seeded/<name>/checks_rerun.log
N="$1"; shift
VMUT_TARGET_DIR=/tmp/vmut-target-rerun-$N /verif/selftest/run_mutant.sh /verif/seeded/$N/patch.diff quick "$@" >> /verif/seeded/$N/checks_rerun.log 2>&1
rm -rf /tmp/vmut-target-rerun-$N
tail -n $# /verif/seeded/$N/checks_rerun.log | cut -c1-240

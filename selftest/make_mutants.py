#!/usr/bin/env python3
"""Generates the hand-written mutation catalogue as patch files (selftest/mutants/*.diff).
Each entry: (name, expected properties, file, old, new).  Run from anywhere; uses a scratch worktree."""
import subprocess, os, sys, tempfile, shutil, json
HERE=os.path.dirname(os.path.abspath(__file__))
OUT=os.path.join(HERE,"mutants")
M=[]
def m(name, props, edits): M.append((name, props, edits))

m("m01_server_ignores_client_mac", ["C03","C07","C08"], [("src/key_exchange/tripledh.rs",
'''        client_mac
            .verify(&ke3_message.mac)
            .map_err(|_| ProtocolError::InvalidLoginError)?;
''','''        let _ = client_mac.verify(&ke3_message.mac);
''')])
m("m02_client_ignores_server_mac", ["C04","C05"], [("src/key_exchange/tripledh.rs",
'''        server_mac
            .verify(&ke2_message.mac)
            .map_err(|_| ProtocolError::InvalidLoginError)?;
''','''        let _ = server_mac.verify(&ke2_message.mac);
''')])
m("m03_context_not_in_transcript", ["C05","C09"], [("src/key_exchange/tripledh.rs",
'''                Input::<U2>::from(context)
                    .map_err(ProtocolError::into_custom)?
                    .iter(),''','''                Input::<U2>::from(&context[..0])
                    .map_err(ProtocolError::into_custom)?
                    .iter(),'''),("src/key_exchange/tripledh.rs",
'''            .chain_iter(Input::<U2>::from(context)?.iter())''','''            .chain_iter(Input::<U2>::from(&context[..0])?.iter())''')])
m("m04_envelope_mac_unchecked", ["C05","C06"], [("src/envelope.rs",
'''        hmac.verify(&self.hmac)
            .map_err(|_| InternalError::SealOpenHmacError)?;
''','''        let _ = hmac.verify(&self.hmac);
''')])
m("m05_blind_from_password_in_production", ["C17","C14"], [("src/opaque.rs",
'''    #[cfg(not(test))]
    let result = voprf::OprfClient::blind(password, rng)?;
''','''    #[cfg(not(test))]
    let result = {
        // "hedged" blinding: derived from the password instead of the RNG
        let _ = &rng;
        let blind = <OprfGroup<CS> as Group>::hash_to_scalar::<OprfHash<CS>>(&[password], &[b"OPAQUE-blind"])
            .map_err(|_| voprf::Error::Input)?;
        voprf::OprfClient::deterministic_blind_unchecked(password, blind)?
    };
''')])
m("m06_credential_id_ignored", ["C05","C14","C09","C08"], [("src/opaque.rs",
'''            hkdf.expand_multi_info(&[credential_identifier, STR_OPRF_KEY], &mut ikm)''',
'''            hkdf.expand_multi_info(&[&credential_identifier[..0], STR_OPRF_KEY], &mut ikm)''')])
m("m07_login_ignores_passed_ksf", ["C15"], [("src/opaque.rs",
'''        let (_, randomized_pwd_hasher) = get_password_derived_key::<CS>(
            password,
            self.oprf_client.clone(),
            credential_response.evaluation_element.clone(),
            params.ksf,
        )?;''','''        let (_, randomized_pwd_hasher) = get_password_derived_key::<CS>(
            password,
            self.oprf_client.clone(),
            credential_response.evaluation_element.clone(),
            None,
        )?;''')])
m("m08_ke3_length_atleast", ["C10"], [("src/key_exchange/tripledh.rs",
'''        let checked_bytes = check_slice_size(bytes, OutputSize::<D>::USIZE, "ke3_message")?;

        Ok(Self {
            mac: GenericArray::clone_from_slice(checked_bytes),
        })''','''        let checked_bytes = check_slice_size_atleast(bytes, OutputSize::<D>::USIZE, "ke3_message")?;

        Ok(Self {
            mac: GenericArray::clone_from_slice(&checked_bytes[..OutputSize::<D>::USIZE]),
        })''')])
m("m09_ristretto_identity_pk_accepted", ["C11"], [("src/key_exchange/group/ristretto255.rs",
'''            .decompress()
            .filter(|point| point != &RistrettoPoint::identity())
            .ok_or(InternalError::PointError)''','''            .decompress()
            .ok_or(InternalError::PointError)''')])
m("m10_i2osp_wraps", ["C12","C05"], [("src/serialization/mod.rs",
'''    if (SIZEOF_USIZE as u32 - input.leading_zeros() / 8) > L::U32 {
        return Err(ProtocolError::SerializationError);
    }
''','''    if L::U32 < 2 && (SIZEOF_USIZE as u32 - input.leading_zeros() / 8) > L::U32 {
        return Err(ProtocolError::SerializationError);
    }
''')])
m("m11_preamble_ids_swapped_both_sides", ["C09"], [("src/key_exchange/tripledh.rs",
'''            .chain_iter(id_u.into_iter())
            .chain_iter(serialized_credential_request)
            .chain_iter(id_s.into_iter())''','''            .chain_iter(id_s.into_iter())
            .chain_iter(serialized_credential_request)
            .chain_iter(id_u.into_iter())'''),("src/key_exchange/tripledh.rs",
'''            .chain_iter(id_u)
            .chain_iter(serialized_credential_request)
            .chain_iter(id_s)''','''            .chain_iter(id_s)
            .chain_iter(serialized_credential_request)
            .chain_iter(id_u)''')])
m("m12_export_key_without_nonce", ["C16","C09"], [("src/envelope.rs",
'''            .expand_multi_info(&[&nonce, &STR_EXPORT_KEY], &mut export_key)''',
'''            .expand_multi_info(&[&STR_EXPORT_KEY], &mut export_key)'''),("src/envelope.rs",
'''            .expand(&self.nonce.concat(STR_EXPORT_KEY.into()), &mut export_key)''',
'''            .expand(&STR_EXPORT_KEY, &mut export_key)''')])
m("m13_unwrap_on_external_public_key", ["C18"], [("src/opaque.rs",
'''        let server_s_pk = server_s_sk.public_key()?;
''','''        let server_s_pk = server_s_sk.public_key().ok().unwrap();
''')])
m("m14_client_login_restores_nonce_from_message", ["C13","C10"], [("src/key_exchange/tripledh.rs",
'''            client_nonce: GenericArray::clone_from_slice(
                &checked_bytes[key_len..key_len + nonce_len],
            ),
        })
    }
}

impl<KG: KeGroup> Serialize for Ke1State<KG>''','''            client_nonce: {
                // normalise: clear the top bit of the stored nonce
                let mut n = GenericArray::clone_from_slice(&checked_bytes[key_len..key_len + nonce_len]);
                n[0] &= 0x7f;
                n
            },
        })
    }
}

impl<KG: KeGroup> Serialize for Ke1State<KG>''')])
m("m15_server_nonce_not_fresh", ["C17","C08","C09"], [("src/key_exchange/tripledh.rs",
'''        let server_nonce = generate_nonce::<R>(rng);
''','''        let server_nonce = {
            let _ = generate_nonce::<R>(rng);
            GenericArray::<u8, NonceLen>::default()
        };
''')])
m("m16_fake_record_uses_empty_credential_id", ["C08","C14","C09"], [("src/opaque.rs",
'''        let record = match password_file {
            Some(x) => x,
            None => ServerRegistration::dummy(rng, server_setup),
        };
''','''        let is_fake = password_file.is_none();
        let record = match password_file {
            Some(x) => x,
            None => ServerRegistration::dummy(rng, server_setup),
        };
        let credential_identifier = if is_fake { &credential_identifier[..0] } else { credential_identifier };
''')])
m("m17_finalization_decoder_slices_before_check", ["C12"], [("src/messages.rs",
'''        let ke3_message =
            <CS::KeyExchange as KeyExchange<OprfHash<CS>, CS::KeGroup>>::KE3Message::deserialize(
                input,
            )?;
        Ok(Self { ke3_message })''','''        // only the MAC is relevant
        let mac_len = Ke3MessageLen::<CS>::USIZE;
        let ke3_message =
            <CS::KeyExchange as KeyExchange<OprfHash<CS>, CS::KeGroup>>::KE3Message::deserialize(
                &input[..mac_len],
            )?;
        Ok(Self { ke3_message })''')])
m("m18_masking_nonce_not_bound_in_transcript", ["C09"], [("src/messages.rs",
'''        [beta.as_slice(), masking_nonce.as_slice()]
            .into_iter()
            .chain(masked_response.iter())''','''        [beta.as_slice(), &masking_nonce.as_slice()[..0]]
            .into_iter()
            .chain(masked_response.iter())''')])
m("m19_scalar_zero_accepted_ristretto_sk", ["C11"], [("src/key_exchange/group/ristretto255.rs",
'''            .and_then(|bytes| Scalar::from_canonical_bytes(bytes).into())
            .filter(|scalar| scalar != &Scalar::ZERO)
            .ok_or(InternalError::PointError)''','''            .and_then(|bytes| Scalar::from_canonical_bytes(bytes).into())
            .ok_or(InternalError::PointError)''')])
m("m20_dh_asymmetric_for_high_bit_keys_p256", ["C19","C01"], [("src/key_exchange/group/elliptic_curve.rs",
'''    fn diffie_hellman(pk: Self::Pk, sk: Self::Sk) -> GenericArray<u8, Self::PkLen> {
        Self::serialize_pk(pk * sk)
    }''','''    fn diffie_hellman(pk: Self::Pk, sk: Self::Sk) -> GenericArray<u8, Self::PkLen> {
        let mut out = Self::serialize_pk(pk * sk);
        // "normalise" the sign of the shared point when the secret key's top byte is 0xff
        let skb: GenericArray<u8, Self::SkLen> = sk.into();
        if skb[0] == 0xff {
            out[0] = 0x02;
        }
        out
    }''')])

def main():
    os.makedirs(OUT, exist_ok=True)
    w=tempfile.mkdtemp(prefix="vmk.")
    subprocess.check_call(["git","-C","/repo","worktree","add","-q","--detach",w+"/r","HEAD"])
    index=[]
    try:
        for name,props,edits in M:
            subprocess.check_call(["git","-C",w+"/r","checkout","-q","--","."])
            for f,old,new in edits:
                p=os.path.join(w,"r",f); s=open(p).read()
                if s.count(old)!=1:
                    print("EDIT-NOT-UNIQUE",name,f,s.count(old)); sys.exit(1)
                open(p,"w").write(s.replace(old,new))
            d=subprocess.check_output(["git","-C",w+"/r","diff"]).decode()
            open(os.path.join(OUT,name+".diff"),"w").write(d)
            index.append({"name":name,"expected":props})
        json.dump(index,open(os.path.join(OUT,"index.json"),"w"),indent=1)
        print("wrote",len(index),"mutants")
    finally:
        subprocess.call(["git","-C","/repo","worktree","remove","--force",w+"/r"])
        shutil.rmtree(w,ignore_errors=True)
main()

#!/bin/bash
# Runs every hand-written mutant of selftest/mutants against the checks it is expected to trip (quick tier).
# usage: run_catalogue.sh [lanes]     output: selftest/catalogue_results.txt
cd "$(dirname "$0")"
LANES="${1:-3}"
python3 - <<'PY' > /tmp/vcat.jobs
import json
for e in json.load(open("mutants/index.json")):
    print(e["name"], " ".join(e["expected"]))
PY
rm -f /tmp/vcat.out.*
i=0
while read -r name ids; do
  lane=$((i % LANES)); i=$((i+1))
  echo "$name $ids" >> /tmp/vcat.lane.$lane
done < /tmp/vcat.jobs
for lane in $(seq 0 $((LANES-1))); do
  ( while read -r name ids; do
      VMUT_TARGET_DIR=/tmp/vcat-target-$lane ./run_mutant.sh mutants/$name.diff quick $ids
    done < /tmp/vcat.lane.$lane > /tmp/vcat.out.$lane 2>&1; rm -rf /tmp/vcat-target-$lane ) &
done
wait
cat /tmp/vcat.out.* | grep -E "exit=|FAILED" | sort > catalogue_results.txt
rm -f /tmp/vcat.lane.* /tmp/vcat.out.* /tmp/vcat.jobs
cat catalogue_results.txt | cut -c1-200

#!/bin/bash
# usage: run_mutant.sh <patch.diff> <tier> <ID> [<ID>...]
# Applies the patch to a scratch worktree of /repo (never to /repo itself), builds a scratch
# copy of the harness against it and runs the named checks.  Prints one line per check:
#   <patch> <ID> exit=<0|1|2> secs=<n>
# Everything scratch lives under /tmp/vmut.* and is removed at the end.
set -u
PATCH="$(readlink -f "$1")"; TIER="$2"; shift 2
VERIF="$(cd "$(dirname "$0")/.." && pwd)"
W="$(mktemp -d /tmp/vmut.XXXXXX)"
cleanup() { git -C /repo worktree remove --force "$W/repo" >/dev/null 2>&1; rm -rf "$W"; git -C /repo worktree prune >/dev/null 2>&1; }
trap cleanup EXIT
git -C /repo worktree add -q --detach "$W/repo" HEAD || exit 2
if ! git -C "$W/repo" apply "$PATCH"; then echo "$(basename "$PATCH") APPLY-FAILED"; exit 2; fi
mkdir -p "$W/verif"
# VMUT_REV (or the file /tmp/vmut.rev) pins the harness to a committed revision of /verif, so that a
# long matrix run is not disturbed by work in progress; default: the working tree.
REV="${VMUT_REV:-$(cat /tmp/vmut.rev 2>/dev/null)}"
if [ -n "$REV" ] && [ "$REV" != "WORKTREE" ]; then
  git -C "$VERIF" archive "$REV" harness known_findings.json | tar -x -C "$W/verif"
else
  rsync -a --exclude target "$VERIF/harness" "$W/verif/"
  cp "$VERIF/known_findings.json" "$W/verif/" 2>/dev/null
fi
sed -i "s#path = \"/repo\"#path = \"$W/repo\"#" "$W/verif/harness/Cargo.toml"
export CARGO_NET_OFFLINE=true
# share the dependency build cache across scratch runs to save time/disk
export CARGO_TARGET_DIR="${VMUT_TARGET_DIR:-$W/target}"
if ! cargo build --release --offline --manifest-path "$W/verif/harness/Cargo.toml" >"$W/build.log" 2>&1; then
  echo "$(basename "$(dirname "$PATCH")")/$(basename "$PATCH") BUILD-FAILED"; tail -n 15 "$W/build.log"; exit 2
fi
for ID in "$@"; do
  t0=$(date +%s)
  case "$ID" in
    fuzz:*) # fuzz:<target> = replay of the committed corpus of that target (strict: any tag counts)
      "$CARGO_TARGET_DIR/release/vcheck" fuzz-replay --suite "${ID#fuzz:}" --replay "$VERIF/corpus/${ID#fuzz:}" --verif-dir "$W/verif" >"$W/out.$ID" 2>"$W/err.$ID"
      rc=$? ;;
    *@checked) # <ID>@checked = the check on the checked profile (overflow checks + debug assertions), as run_check.sh does for C12
      cargo build --profile checked --offline --manifest-path "$W/verif/harness/Cargo.toml" >"$W/buildc.log" 2>&1 || { echo "BUILD-FAILED (checked)"; rc=2; }
      "$CARGO_TARGET_DIR/checked/vcheck" "${ID%@checked}" --tier "$TIER" --seed "${VERIF_SEED:-0}" --verif-dir "$W/verif" >"$W/out.$ID" 2>"$W/err.$ID"
      rc=$? ;;
    *)
      "$CARGO_TARGET_DIR/release/vcheck" "$ID" --tier "$TIER" --seed "${VERIF_SEED:-0}" --verif-dir "$W/verif" >"$W/out.$ID" 2>"$W/err.$ID"
      rc=$? ;;
  esac
  t1=$(date +%s)
  why=$(grep -m1 -E "^\[(C[0-9]+)\]" "$W/err.$ID" | cut -c1-260)
  echo "$(basename "$(dirname "$PATCH")")/$(basename "$PATCH") $ID exit=$rc secs=$((t1-t0)) $why"
done

#!/bin/bash
# usage: fuzz_mutant.sh <patch.diff> <target> [runs-per-process] [processes]
# Builds the libFuzzer target against a scratch worktree of /repo with the patch applied and runs a
# campaign from the committed corpus; prints whether a (production-profile confirmed) violation was found.
set -u
PATCH="$(readlink -f "$1")"; TARGET="$2"; RUNS="${3:-4000}"; PROCS="${4:-8}"
VERIF="$(cd "$(dirname "$0")/.." && pwd)"
W="$(mktemp -d /tmp/vmutf.XXXXXX)"
cleanup() { git -C /repo worktree remove --force "$W/repo" >/dev/null 2>&1; rm -rf "$W"; git -C /repo worktree prune >/dev/null 2>&1; }
trap cleanup EXIT
git -C /repo worktree add -q --detach "$W/repo" HEAD || exit 2
git -C "$W/repo" apply "$PATCH" || { echo "APPLY-FAILED"; exit 2; }
mkdir -p "$W/verif"
rsync -a --exclude target "$VERIF/harness" "$VERIF/fuzz" "$W/verif/"
sed -i "s#path = \"/repo\"#path = \"$W/repo\"#" "$W/verif/harness/Cargo.toml"
export CARGO_NET_OFFLINE=true
( cd "$W/verif" && cargo +nightly fuzz build --fuzz-dir fuzz -O -s none "$TARGET" ) >"$W/build.log" 2>&1 || { echo "BUILD-FAILED"; tail -n 15 "$W/build.log"; exit 2; }
CARGO_TARGET_DIR="${VMUT_TARGET_DIR:-$W/target}" cargo build --release --offline --manifest-path "$W/verif/harness/Cargo.toml" >"$W/build2.log" 2>&1 || { echo "BUILD-FAILED (vcheck)"; exit 2; }
VC="${VMUT_TARGET_DIR:-$W/target}/release/vcheck"
BIN="$W/verif/fuzz/target/x86_64-unknown-linux-gnu/release/$TARGET"
t0=$(date +%s)
for i in $(seq 1 "$PROCS"); do
  mkdir -p "$W/c$i" "$W/a$i"; cp "$VERIF/corpus/$TARGET"/* "$W/c$i/"
  ( "$BIN" "$W/c$i" -runs="$RUNS" -seed=$((100 + i)) -max_len=1024 -len_control=0 -timeout=20 -artifact_prefix="$W/a$i/" -print_final_stats=1 >"$W/log$i" 2>&1 ) &
done
wait
t1=$(date +%s)
found=0
for f in "$W"/a*/*; do
  [ -f "$f" ] || continue
  if ! "$VC" fuzz-replay --suite "$TARGET" --replay "$f" --verif-dir "$W/verif" >"$W/rp.out" 2>"$W/rp.err"; then
    found=$((found + 1)); [ $found -le 2 ] && grep -m1 -E "^\[" "$W/rp.err" | cut -c1-300
  fi
done
execs=0; for i in $(seq 1 "$PROCS"); do n=$(sed -n 's/^stat::number_of_executed_units: \([0-9]*\)/\1/p' "$W/log$i" | tail -1); execs=$((execs + ${n:-0})); done
echo "$(basename "$(dirname "$PATCH")") fuzz:$TARGET confirmed_violations=$found executions=$execs secs=$((t1-t0))"

#!/bin/bash
# usage: confirm_seeded.sh <dir with patch.diff demo_test.rs meta.json>
# Confirms independently, in a scratch worktree of /repo: (1) the demo passes on the unchanged tree,
# (2) with the patch the crate's own test suite still passes, (3) with the patch the demo fails.
# Prints one summary line; exit 0 only if all three hold.
D="$(readlink -f "$1")"
export CARGO_NET_OFFLINE=true
export CARGO_TARGET_DIR="${VCONF_TARGET_DIR:-/tmp/vconf-target}"
FEATS=$(python3 -c "import json,sys;print(json.load(open('$D/meta.json')).get('features','') or '')" 2>/dev/null)
FARG=""; [ -n "$FEATS" ] && FARG="--features $(echo $FEATS | sed 's/--features//g; s/^ *//')"
W="$(mktemp -d /tmp/vconf.XXXXXX)"
trap 'git -C /repo worktree remove --force "$W/r" >/dev/null 2>&1; rm -rf "$W"; git -C /repo worktree prune' EXIT
git -C /repo worktree add -q --detach "$W/r" HEAD || exit 2
mkdir -p "$W/r/tests"; cp "$D/demo_test.rs" "$W/r/tests/seeded_demo.rs"
cd "$W/r"
cargo test --offline --test seeded_demo $FARG >"$W/demo0.log" 2>&1; d0=$?
git apply "$D/patch.diff" || { echo "CONFIRM $(basename $(dirname $D))/$(basename $D): patch does not apply"; exit 1; }
mv tests/seeded_demo.rs "$W/demo.rs"
cargo test --workspace --no-fail-fast --offline >"$W/suite.log" 2>&1; s1=$?
npass=$(grep -E "^test result: ok\. 91 passed" "$W/suite.log" | wc -l)
cp "$W/demo.rs" tests/seeded_demo.rs
cargo test --offline --test seeded_demo $FARG >"$W/demo1.log" 2>&1; d1=$?
ok=1
[ $d0 -eq 0 ] || ok=0; [ $s1 -eq 0 ] || ok=0; [ $npass -ge 1 ] || ok=0; [ $d1 -ne 0 ] || ok=0
echo "CONFIRM $(basename $(dirname $D))/$(basename $D): demo_without_patch_exit=$d0 suite_with_patch_exit=$s1 (91-pass-lines=$npass) demo_with_patch_exit=$d1 features='$FEATS' => $([ $ok -eq 1 ] && echo CONFIRMED || echo NOT-CONFIRMED)"
[ $ok -eq 1 ]

#!/bin/bash
# For every patch given: does the crate still compile and pass its own 91 tests with it applied?
# usage: validate_mutants.sh <out.log> <patch>...
OUT="$1"; shift
export CARGO_NET_OFFLINE=true
for P in "$@"; do
  W="$(mktemp -d /tmp/vval.XXXXXX)"
  git -C /repo worktree add -q --detach "$W/r" HEAD
  if git -C "$W/r" apply "$(readlink -f "$P")"; then
    res=$(cd "$W/r" && CARGO_TARGET_DIR=/tmp/vval-target cargo test --workspace --no-fail-fast --offline 2>&1 | grep -E "^test result|error(\[|:)" | head -3 | tr '\n' ' ')
  else
    res="APPLY-FAILED"
  fi
  echo "$(basename "$P") :: $res" >> "$OUT"
  git -C /repo worktree remove --force "$W/r" >/dev/null 2>&1; rm -rf "$W"
done
git -C /repo worktree prune
echo DONE >> "$OUT"

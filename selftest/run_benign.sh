#!/bin/bash
# Runs all 19 quick checks against every property-preserving variant in selftest/benign/ (scratch copies).
# Every line of the result must say exit=0.   usage: [BENIGN_GLOB='benign/a*.diff'] run_benign.sh [lanes]
# With BENIGN_GLOB set, only those variants are run and their lines are merged into benign/results.txt.
cd "$(dirname "$0")"
ALL="C01 C02 C03 C04 C05 C06 C07 C08 C09 C10 C11 C12 C13 C14 C15 C16 C17 C18 C19"
LANES="${1:-2}"; i=0; T="$(mktemp -d /tmp/vben.XXXXXX)"
for f in ${BENIGN_GLOB:-benign/*.diff}; do lane=$((i % LANES)); i=$((i+1)); echo "$f" >> $T/lane.$lane; done
for lane in $(seq 0 $((LANES-1))); do
  ( while read -r f; do VMUT_TARGET_DIR=$T/target-$lane ./run_mutant.sh "$f" quick $ALL; done < $T/lane.$lane > $T/out.$lane 2>&1; rm -rf $T/target-$lane ) &
done
wait
cat $T/out.* > benign/last_run_full.log
if [ -n "${BENIGN_GLOB:-}" ] && [ -f benign/results.txt ]; then
  cat $T/out.* | awk '{print $1,$2,$3,$4}' > $T/new
  awk '{print $1}' $T/new | sort -u > $T/names
  grep -v -F -f $T/names benign/results.txt > $T/old
  cat $T/old $T/new | sort > benign/results.txt; rm -f $T/new $T/names $T/old
else
  cat $T/out.* | awk '{print $1,$2,$3,$4}' | sort > benign/results.txt
fi
rm -rf "$T"
grep -vc "exit=0" benign/results.txt

#!/bin/bash
# Runs all 19 quick checks against every property-preserving variant in selftest/benign/ (scratch copies).
# Every line of the result must say exit=0.   usage: run_benign.sh [lanes]
cd "$(dirname "$0")"
ALL="C01 C02 C03 C04 C05 C06 C07 C08 C09 C10 C11 C12 C13 C14 C15 C16 C17 C18 C19"
LANES="${1:-2}"; i=0
for f in benign/*.diff; do lane=$((i % LANES)); i=$((i+1)); echo "$f" >> /tmp/vben.lane.$lane; done
for lane in $(seq 0 $((LANES-1))); do
  ( while read -r f; do VMUT_TARGET_DIR=/tmp/vben-target-$lane ./run_mutant.sh "$f" quick $ALL; done < /tmp/vben.lane.$lane > /tmp/vben.out.$lane 2>&1; rm -rf /tmp/vben-target-$lane ) &
done
wait
cat /tmp/vben.out.* | awk '{print $1,$2,$3,$4}' | sort > benign/results.txt
rm -f /tmp/vben.lane.* /tmp/vben.out.*
grep -vc "exit=0" benign/results.txt

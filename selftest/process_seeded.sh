#!/bin/bash
# usage: process_seeded.sh <property id> <agent worktree>   (e.g. C04 /tmp/seed/wt-C04)
# For A and B: confirm independently, store under /verif/seeded/<id>-<X>/, run all checks (quick) against it.
ID="$1"; WT="$2"; VERIF=/verif
ALL="C01 C02 C03 C04 C05 C06 C07 C08 C09 C10 C11 C12 C13 C14 C15 C16 C17 C18 C19"
for X in ${SEED_NAMES:-A B}; do
  S="$WT/seeded/$X"
  [ -f "$S/patch.diff" ] || { echo "$ID-$X: missing"; continue; }
  DEST="$VERIF/seeded/$ID-$X"; mkdir -p "$DEST"
  cp "$S/patch.diff" "$S/demo_test.rs" "$S/meta.json" "$DEST/" 2>/dev/null
  VCONF_TARGET_DIR=/tmp/vconf-target-$ID "$VERIF/selftest/confirm_seeded.sh" "$DEST" > "$DEST/confirm.log" 2>&1
  cat "$DEST/confirm.log" | tail -1
  VMUT_TARGET_DIR=/tmp/vmut-target-$ID "$VERIF/selftest/run_mutant.sh" "$DEST/patch.diff" quick $ALL > "$DEST/checks_quick.log" 2>&1
  grep -E "exit=[12]|FAILED" "$DEST/checks_quick.log" | cut -c1-220
  echo "$ID-$X: detected_by=$(grep -E 'exit=1' "$DEST/checks_quick.log" | awk '{print $2}' | tr '\n' ' ')"
done
rm -rf /tmp/vconf-target-$ID /tmp/vmut-target-$ID

#!/usr/bin/env python3
"""Property-preserving variants of opaque-ke (selftest/benign/*.diff): every check must stay silent on them.
They change things the listed properties do not constrain: how many RNG calls fetch a value, the order of
independent draws, which error kind reports a malformed length."""
import subprocess, os, sys, tempfile, shutil, json
HERE=os.path.dirname(os.path.abspath(__file__)); OUT=os.path.join(HERE,"benign")
M=[]
def m(name, edits): M.append((name, edits))
m("b01_nonce_in_two_draws", [("src/key_exchange/tripledh.rs",
'''    let mut nonce_bytes = GenericArray::default();
    rng.fill_bytes(&mut nonce_bytes);
    nonce_bytes''','''    let mut nonce_bytes: GenericArray<u8, NonceLen> = GenericArray::default();
    let (a, b) = nonce_bytes.split_at_mut(16);
    rng.fill_bytes(a);
    rng.fill_bytes(b);
    nonce_bytes''')])
m("b02_server_nonce_before_keyshare", [("src/key_exchange/tripledh.rs",
'''        let server_e_kp = KeyPair::<KG>::generate_random::<OprfCs, _>(rng);
        let server_nonce = generate_nonce::<R>(rng);
''','''        let server_nonce = generate_nonce::<R>(rng);
        let server_e_kp = KeyPair::<KG>::generate_random::<OprfCs, _>(rng);
''')])
m("b03_setup_draw_order", [("src/opaque.rs",
'''        let mut oprf_seed = GenericArray::default();
        rng.fill_bytes(&mut oprf_seed);

        Self {
            oprf_seed,
            keypair,
            fake_keypair: KeyPair::<CS::KeGroup>::generate_random::<CS::OprfCs, _>(rng),
        }''','''        let fake_keypair = KeyPair::<CS::KeGroup>::generate_random::<CS::OprfCs, _>(rng);
        let mut oprf_seed = GenericArray::default();
        rng.fill_bytes(&mut oprf_seed);

        Self {
            oprf_seed,
            keypair,
            fake_keypair,
        }''')])
m("b04_length_errors_reported_as_serialization_error", [("src/messages.rs",
'''        let checked_slice = check_slice_size(input, elem_len, "registration_request_bytes")?;
''','''        let checked_slice = check_slice_size(input, elem_len, "registration_request_bytes")
            .map_err(|_: crate::errors::InternalError| ProtocolError::SerializationError)?;
''')])
m("b05_seed_and_nonce_from_one_larger_draw", [("src/envelope.rs",
'''        let mut nonce = GenericArray::default();
        rng.fill_bytes(&mut nonce);
''','''        // fetch 64 bytes at once and use the second half
        let mut block = [0u8; 64];
        rng.fill_bytes(&mut block);
        let nonce = GenericArray::clone_from_slice(&block[32..]);
''')])
m("b06_keyshare_seed_inside_a_larger_draw", [("src/keypair.rs",
'''        let mut scalar_bytes = GenericArray::<_, <KG as KeGroup>::SkLen>::default();
        rng.fill_bytes(&mut scalar_bytes);
''','''        // one larger request; the seed is taken from the middle of it
        let mut block = [0u8; 160];
        rng.fill_bytes(&mut block);
        let n = <<KG as KeGroup>::SkLen as generic_array::typenum::Unsigned>::USIZE;
        let scalar_bytes = GenericArray::<_, <KG as KeGroup>::SkLen>::clone_from_slice(&block[7..7 + n]);
''')])
m("b08_external_public_key_asked_twice", [("src/opaque.rs",
'''        let server_s_pk = server_s_sk.public_key()?;
''','''        let server_s_pk = server_s_sk.public_key()?;
        // ask again and keep the second answer (an HSM front-end might re-validate)
        let server_s_pk = if true { server_s_sk.public_key()? } else { server_s_pk };
''')])
m("b16_static_key_by_rejection_sampling", [("src/opaque.rs",
'''        let keypair = KeyPair::generate_random::<CS::OprfCs, _>(rng);
        Self::new_with_key(rng, keypair)''','''        // long-term key sampled directly (rejection sampling) instead of derived from a seed
        let sk = <CS::KeGroup as KeGroup>::random_sk(rng);
        let keypair = KeyPair::from_private_key_slice(&<CS::KeGroup as KeGroup>::serialize_sk(sk))
            .expect("freshly sampled key is valid");
        Self::new_with_key(rng, keypair)''')])
m("b12_fake_record_draws_reordered", [("src/opaque.rs",
'''        let record = match password_file {
            Some(x) => x,
            None => ServerRegistration::dummy(rng, server_setup),
        };

        let client_s_pk = record.0.client_s_pk.clone();
        let context = context.unwrap_or(&[]);
        let server_s_sk = server_setup.keypair.private();
        let server_s_pk = server_s_sk.public_key()?;

        let mut masking_nonce = GenericArray::<_, NonceLen>::default();
        rng.fill_bytes(&mut masking_nonce);
''','''        let mut masking_nonce = GenericArray::<_, NonceLen>::default();
        rng.fill_bytes(&mut masking_nonce);

        let record = match password_file {
            Some(x) => x,
            None => ServerRegistration::dummy(rng, server_setup),
        };

        let client_s_pk = record.0.client_s_pk.clone();
        let context = context.unwrap_or(&[]);
        let server_s_sk = server_setup.keypair.private();
        let server_s_pk = server_s_sk.public_key()?;
''')])
m("b17_over_long_password_refused_at_start", [("src/opaque.rs",
'''    #[cfg(not(test))]
    let result = voprf::OprfClient::blind(password, rng)?;
''','''    if password.len() > usize::from(u16::MAX) {
        return Err(voprf::Error::Input);
    }
    #[cfg(not(test))]
    let result = voprf::OprfClient::blind(password, rng)?;
''')])
def main():
    os.makedirs(OUT, exist_ok=True)
    w=tempfile.mkdtemp(prefix="vmk.")
    subprocess.check_call(["git","-C","/repo","worktree","add","-q","--detach",w+"/r","HEAD"])
    try:
        for name,edits in M:
            subprocess.check_call(["git","-C",w+"/r","checkout","-q","--","."])
            for f,old,new in edits:
                p=os.path.join(w,"r",f); s=open(p).read()
                if s.count(old)!=1: print("EDIT-NOT-UNIQUE",name,f,s.count(old)); sys.exit(1)
                open(p,"w").write(s.replace(old,new))
            open(os.path.join(OUT,name+".diff"),"w").write(subprocess.check_output(["git","-C",w+"/r","diff"]).decode())
        print("wrote",len(M),"benign variants")
    finally:
        subprocess.call(["git","-C","/repo","worktree","remove","--force",w+"/r"]); shutil.rmtree(w,ignore_errors=True)
main()

#!/bin/bash
# usage: run_check.sh <ID> <quick|thorough> [extra vcheck args, e.g. --replay FILE]
# exit 0 = property held on everything explored
# exit 1 = "VIOLATION property=<id> replay=<path>" printed
# exit 2 = inconclusive (build failure, watchdog, harness self-test failure)
set -u
HERE="$(cd "$(dirname "$0")" && pwd)"
ID="${1:?property id}"; TIER="${2:-${VERIF_TIER:-quick}}"; shift; shift || true
export CARGO_NET_OFFLINE=true
SEED="${VERIF_SEED:-0}"
LOG="$(mktemp /tmp/vharness-build.XXXXXX)"
if ! cargo build --release --offline --manifest-path "$HERE/harness/Cargo.toml" >"$LOG" 2>&1; then
  echo "INCONCLUSIVE property=$ID the harness (or /repo) does not build; last lines:"
  tail -n 25 "$LOG"
  rm -f "$LOG"
  exit 2
fi
rm -f "$LOG"
VC="$HERE/harness/target/release/vcheck"
# C12 only: a second build of harness + crate with overflow checks and debug assertions on
build_checked() {
  local L; L="$(mktemp /tmp/vharness-build.XXXXXX)"
  if ! cargo build --profile checked --offline --manifest-path "$HERE/harness/Cargo.toml" >"$L" 2>&1; then
    echo "INCONCLUSIVE property=$ID the checked-profile harness does not build; last lines:"; tail -n 25 "$L"; rm -f "$L"; exit 2
  fi
  rm -f "$L"
}
VCC="$HERE/harness/target/checked/vcheck"
# replay files of the checked-profile pass are named C12-checked-*: they are replayed with that build
for a in "$@"; do
  case "$a" in *C12-checked-*) build_checked; VC="$VCC" ;; esac
done
"$VC" "$ID" --tier "$TIER" --seed "$SEED" --verif-dir "$HERE" "$@"
rc=$?
if [ $rc -ne 0 ] && [ $rc -ne 1 ] && [ $rc -ne 2 ]; then
  echo "INCONCLUSIVE property=$ID vcheck ended with status $rc"
  exit 2
fi
[ $rc -eq 0 ] || exit $rc
# a replay request ends here
for a in "$@"; do [ "$a" = "--replay" ] && exit 0; done

# ---- C12: the same check once more (quick budget) on the checked profile: a panic that only an
# overflow check or a debug assertion raises is a panic of the crate all the same
if [ "$ID" = "C12" ]; then
  build_checked
  SCR="$(mktemp -d /tmp/vchecked.XXXXXX)"
  cp "$HERE/known_findings.json" "$SCR/" 2>/dev/null
  OUT="$("$VCC" C12 --tier quick --seed "$SEED" --verif-dir "$SCR" 2>"$SCR/err")"; crc=$?
  if [ $crc -eq 1 ]; then
    mkdir -p "$HERE/replays"
    grep -E "^\[C12\]" "$SCR/err" | head -5 >&2
    for f in "$SCR"/replays/*.json; do
      [ -f "$f" ] || continue
      dst="$HERE/replays/C12-checked-$(basename "$f" | sed 's/^C12-//')"; cp "$f" "$dst"
      echo "VIOLATION property=C12 replay=$dst"
    done
    rm -rf "$SCR"; exit 1
  elif [ $crc -ne 0 ]; then
    echo "$OUT" | grep -E "^INCONCLUSIVE" || echo "INCONCLUSIVE property=C12 checked-profile pass ended with status $crc"
    rm -rf "$SCR"; exit 2
  fi
  CL="$(echo "$OUT" | grep -E "^OK property=C12" | tail -1)"
  echo "CHECKED-PROFILE $CL"
  cc=$(echo "$CL" | sed -n 's/.* cases=\([0-9]*\).*/\1/p'); ce=$(echo "$CL" | sed -n 's/.* evaluations=\([0-9]*\).*/\1/p')
  if [ -f "$HERE/evidence/C12.json" ]; then
    jq --argjson c "${cc:-0}" --argjson e "${ce:-0}" '.coverage.checked_profile_pass = {profile: "release + overflow-checks + debug-assertions (harness and crate)", budget: "quick", cases: $c, evaluations: $e, violations: 0}' "$HERE/evidence/C12.json" > "$HERE/evidence/C12.json.tmp" && mv "$HERE/evidence/C12.json.tmp" "$HERE/evidence/C12.json"
  fi
  rm -rf "$SCR"
fi

# ---- byte-level tier: committed corpus replay (quick + thorough) and libFuzzer campaigns (thorough)
case "$ID" in
  C03) TARGETS="server_finish" ;;
  C04) TARGETS="login_response" ;;
  C07) TARGETS="history" ;;
  C08) TARGETS="server_start" ;;
  C10|C11) TARGETS="decoders" ;;
  C12) TARGETS="decoders server_start" ;;
  C13) TARGETS="decoders history" ;;
  *) exit 0 ;;
esac
EV="$HERE/evidence/$ID.json"
# (1) committed corpus (seeds + every minimised past failure) through the stable production-profile binary
NFILES=0; HS=""
for TARGET in $TARGETS; do
  OUT="$(VERIF_FUZZ_PROPERTY=$ID "$VC" fuzz-replay --suite "$TARGET" --replay "$HERE/corpus/$TARGET" --verif-dir "$HERE")"
  frc=$?
  echo "$OUT" | grep -E "^(VIOLATION|FUZZ-REPLAY|INCONCLUSIVE|HISTORY-STATS)"
  n=$(echo "$OUT" | sed -n 's/.*files=\([0-9]*\).*/\1/p' | tail -1); NFILES=$((NFILES + ${n:-0}))
  h=$(echo "$OUT" | sed -n 's/^HISTORY-STATS //p'); [ -n "$h" ] && HS="$h"
  [ $frc -eq 0 ] || exit $frc
done
if [ -f "$EV" ]; then
  jq --arg t "$TARGETS" --argjson n "$NFILES" --arg hs "$HS" '.coverage.corpus_replay = ({targets: $t, files: $n, profile: "production (stable, release)"} + (if $hs == "" then {} else {history_contents: $hs} end))' "$EV" > "$EV.tmp" && mv "$EV.tmp" "$EV"
fi
[ "$TIER" = "thorough" ] || exit 0

# (2) coverage-guided campaigns (libFuzzer via cargo-fuzz, nightly), fixed work
RUNS="${VERIF_FUZZ_RUNS:-1000000}"; PROCS="${VERIF_FUZZ_PROCS:-8}"
# -O -s none: no debug assertions, no ASan.  A crash only counts when the stable production-profile
# binary reproduces it for this property, so neither would add a finding, and both cost 5-7x throughput.
if ! cargo +nightly fuzz build --fuzz-dir "$HERE/fuzz" -O -s none >/tmp/vfuzz-build.$$ 2>&1; then
  echo "INCONCLUSIVE property=$ID the fuzz targets do not build (cargo +nightly fuzz); last lines:"; tail -n 15 /tmp/vfuzz-build.$$; rm -f /tmp/vfuzz-build.$$
  exit 2
fi
rm -f /tmp/vfuzz-build.$$
WORK="$(mktemp -d /tmp/vfuzz.XXXXXX)"
trap 'rm -rf "$WORK"' EXIT
mkdir -p "$HERE/replays"
TOTAL=0; viol=0; other=0
# campaign <dir of fuzz binaries> <vcheck binary that confirms crashes> <replay name infix> <divisor of the run count>
campaign() {
  local BDIR="$1" CONF="$2" INFIX="$3" DIV="$4" TARGET
  for TARGET in $TARGETS; do
    local BIN="$BDIR/$TARGET" W="$WORK/$INFIX$TARGET"
    # server_start runs a full ServerLogin::start per input (about 10 ms on the P-521 suites)
    local TRUNS="$RUNS"; [ "$TARGET" = "server_start" ] && TRUNS=$((RUNS / 6))
    # history runs up to 40 protocol operations per input (20-60 inputs/s per process)
    [ "$TARGET" = "history" ] && TRUNS=$((RUNS / 64))
    TRUNS=$((TRUNS / DIV)); [ "$TRUNS" -ge 1 ] || TRUNS=1
    local pids="" i n f crc dst
    for i in $(seq 1 "$PROCS"); do
      mkdir -p "$W/c$i" "$W/a$i"
      cp "$HERE/corpus/$TARGET"/* "$W/c$i/" 2>/dev/null
      ( "$BIN" "$W/c$i" -runs="$TRUNS" -seed=$((SEED * 100 + i)) -max_len=1024 -len_control=0 -timeout=20 \
          -artifact_prefix="$W/a$i/" -print_final_stats=1 >"$W/log$i" 2>&1 ) &
      pids="$pids $!"
    done
    wait $pids
    for i in $(seq 1 "$PROCS"); do
      n=$(sed -n 's/^stat::number_of_executed_units: \([0-9]*\)/\1/p' "$W/log$i" | tail -1); TOTAL=$((TOTAL + ${n:-0}))
    done
    for f in "$W"/a*/*; do
      [ -f "$f" ] || continue
      # a crash counts only if the stable binary of the profile under check reproduces it for this property
      VERIF_FUZZ_PROPERTY=$ID "$CONF" fuzz-replay --suite "$TARGET" --replay "$f" --verif-dir "$HERE" >/dev/null 2>&1; crc=$?
      if [ $crc -ne 1 ]; then
        # 0: not reproduced / another property's subject; 2: harness problem - neither is a verdict
        other=$((other + 1))
      else
        dst="$HERE/replays/$ID-${INFIX}fuzz-$TARGET-$(basename "$f")"; cp "$f" "$dst"
        echo "VIOLATION property=$ID replay=$dst"; viol=$((viol + 1))
      fi
    done
  done
}
campaign "$HERE/fuzz/target/x86_64-unknown-linux-gnu/release" "$VC" "" 1
CHK=""
if [ "$ID" = "C12" ]; then
  # C12 also fuzzes builds with debug assertions and overflow checks (cargo-fuzz's default, no -O): a
  # quarter of the runs, crashes confirmed with the checked-profile vcheck (replay files C12-checked-fuzz-*)
  if ! cargo +nightly fuzz build --fuzz-dir "$HERE/fuzz" -s none --target-dir "$HERE/fuzz/target-checked" >/tmp/vfuzz-build.$$ 2>&1; then
    echo "INCONCLUSIVE property=$ID the fuzz targets do not build with debug assertions; last lines:"; tail -n 15 /tmp/vfuzz-build.$$; rm -f /tmp/vfuzz-build.$$
    exit 2
  fi
  rm -f /tmp/vfuzz-build.$$
  campaign "$HERE/fuzz/target-checked/x86_64-unknown-linux-gnu/release" "$VCC" "checked-" 4
  CHK=" + the same targets built with debug assertions and overflow checks (a quarter of the runs)"
fi
if [ -f "$EV" ]; then
  jq --arg t "$TARGETS" --argjson e "$TOTAL" --argjson p "$PROCS" --argjson r "$RUNS" --argjson v "$viol" --argjson d "$other" \
     --arg chk "$CHK" '.coverage.fuzz = {engine: ("libFuzzer (cargo-fuzz, nightly, -O, no sanitizer)" + $chk), targets: $t, processes_per_target: $p, runs_per_process: $r, executions: $e, confirmed_violations: $v, crashes_not_reproduced_on_production_profile_or_other_property: $d} | .coverage.evaluations += $e' \
     "$EV" > "$EV.tmp" && mv "$EV.tmp" "$EV"
fi
echo "FUZZ targets=$TARGETS processes=$PROCS executions=$TOTAL confirmed_violations=$viol other_crashes=$other"
[ $viol -eq 0 ] || exit 1
exit 0

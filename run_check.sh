#!/bin/bash
# usage: run_check.sh <ID> <quick|thorough> [extra vcheck args, e.g. --replay FILE]
# exit 0 = property held on everything explored
# exit 1 = "VIOLATION property=<id> replay=<path>" printed
# exit 2 = inconclusive (build failure, watchdog, harness self-test failure)
set -u
HERE="$(cd "$(dirname "$0")" && pwd)"
ID="${1:?property id}"; TIER="${2:-${VERIF_TIER:-quick}}"; shift; shift || true
export CARGO_NET_OFFLINE=true
SEED="${VERIF_SEED:-0}"
LOG="$(mktemp /tmp/vharness-build.XXXXXX)"
if ! cargo build --release --offline --manifest-path "$HERE/harness/Cargo.toml" >"$LOG" 2>&1; then
  echo "INCONCLUSIVE property=$ID the harness (or /repo) does not build; last lines:"
  tail -n 25 "$LOG"
  rm -f "$LOG"
  exit 2
fi
rm -f "$LOG"
VC="$HERE/harness/target/release/vcheck"
"$VC" "$ID" --tier "$TIER" --seed "$SEED" --verif-dir "$HERE" "$@"
rc=$?
if [ $rc -ne 0 ] && [ $rc -ne 1 ] && [ $rc -ne 2 ]; then
  echo "INCONCLUSIVE property=$ID vcheck ended with status $rc"
  exit 2
fi
[ $rc -eq 0 ] || exit $rc
# a replay request ends here
for a in "$@"; do [ "$a" = "--replay" ] && exit 0; done

# ---- byte-level tier for the decoder / response properties
case "$ID" in
  C04) TARGET=login_response ;;
  C10|C11|C12) TARGET=decoders ;;
  *) exit 0 ;;
esac
EV="$HERE/evidence/$ID.json"
# (1) committed corpus (seeds + every minimised past failure) through the stable production-profile binary
OUT="$(VERIF_FUZZ_PROPERTY=$ID "$VC" fuzz-replay --suite "$TARGET" --replay "$HERE/corpus/$TARGET" --verif-dir "$HERE")"
frc=$?
echo "$OUT" | grep -E "^(VIOLATION|FUZZ-REPLAY|INCONCLUSIVE)"
NFILES=$(echo "$OUT" | sed -n 's/.*files=\([0-9]*\).*/\1/p' | tail -1)
if [ -f "$EV" ]; then
  jq --arg t "$TARGET" --argjson n "${NFILES:-0}" '.coverage.corpus_replay = {target: $t, files: $n, profile: "production (stable, release)"}' "$EV" > "$EV.tmp" && mv "$EV.tmp" "$EV"
fi
[ $frc -eq 0 ] || exit $frc
[ "$TIER" = "thorough" ] || exit 0

# (2) coverage-guided campaign (libFuzzer via cargo-fuzz, nightly), fixed work
RUNS="${VERIF_FUZZ_RUNS:-1000000}"; PROCS="${VERIF_FUZZ_PROCS:-8}"
if ! cargo +nightly fuzz build --fuzz-dir "$HERE/fuzz" "$TARGET" >/tmp/vfuzz-build.$$ 2>&1; then
  echo "INCONCLUSIVE property=$ID fuzz target $TARGET does not build (cargo +nightly fuzz); last lines:"; tail -n 15 /tmp/vfuzz-build.$$; rm -f /tmp/vfuzz-build.$$
  exit 2
fi
rm -f /tmp/vfuzz-build.$$
BIN="$HERE/fuzz/target/x86_64-unknown-linux-gnu/release/$TARGET"
WORK="$(mktemp -d /tmp/vfuzz.XXXXXX)"
trap 'rm -rf "$WORK"' EXIT
pids=""
for i in $(seq 1 "$PROCS"); do
  mkdir -p "$WORK/c$i" "$WORK/a$i"
  cp "$HERE/corpus/$TARGET"/* "$WORK/c$i/" 2>/dev/null
  ( "$BIN" "$WORK/c$i" -runs="$RUNS" -seed=$((SEED * 100 + i)) -max_len=1024 -len_control=0 -timeout=20 \
      -artifact_prefix="$WORK/a$i/" -print_final_stats=1 >"$WORK/log$i" 2>&1 ) &
  pids="$pids $!"
done
wait $pids
EXECS=0
for i in $(seq 1 "$PROCS"); do
  n=$(sed -n 's/^stat::number_of_executed_units: \([0-9]*\)/\1/p' "$WORK/log$i" | tail -1); EXECS=$((EXECS + ${n:-0}))
done
viol=0; dbg_only=0
mkdir -p "$HERE/replays"
for f in "$WORK"/a*/*; do
  [ -f "$f" ] || continue
  # a crash counts only if it also fails on the production profile
  if VERIF_FUZZ_PROPERTY=$ID "$VC" fuzz-replay --suite "$TARGET" --replay "$f" --verif-dir "$HERE" >/dev/null 2>&1; then
    dbg_only=$((dbg_only + 1))
  else
    dst="$HERE/replays/$ID-fuzz-$(basename "$f")"; cp "$f" "$dst"
    echo "VIOLATION property=$ID replay=$dst"; viol=$((viol + 1))
  fi
done
if [ -f "$EV" ]; then
  jq --arg t "$TARGET" --argjson e "$EXECS" --argjson p "$PROCS" --argjson r "$RUNS" --argjson v "$viol" --argjson d "$dbg_only" \
     '.coverage.fuzz = {engine: "libFuzzer (cargo-fuzz, nightly)", target: $t, processes: $p, runs_per_process: $r, executions: $e, confirmed_violations: $v, crashes_not_reproduced_on_production_profile_or_other_property: $d} | .coverage.evaluations += $e' \
     "$EV" > "$EV.tmp" && mv "$EV.tmp" "$EV"
fi
echo "FUZZ target=$TARGET processes=$PROCS executions=$EXECS confirmed_violations=$viol other_crashes=$dbg_only"
[ $viol -eq 0 ] || exit 1
exit 0

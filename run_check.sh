#!/bin/bash
# usage: run_check.sh <ID> <quick|thorough> [extra vcheck args, e.g. --replay FILE]
# exit 0 = property held on everything explored
# exit 1 = "VIOLATION property=<id> replay=<path>" printed
# exit 2 = inconclusive (build failure, watchdog, harness self-test failure)
set -u
HERE="$(cd "$(dirname "$0")" && pwd)"
ID="${1:?property id}"; TIER="${2:-${VERIF_TIER:-quick}}"; shift; shift || true
export CARGO_NET_OFFLINE=true
LOG="$(mktemp /tmp/vharness-build.XXXXXX)"
if ! cargo build --release --offline --manifest-path "$HERE/harness/Cargo.toml" >"$LOG" 2>&1; then
  echo "INCONCLUSIVE property=$ID the harness (or /repo) does not build; last lines:"
  tail -n 25 "$LOG"
  rm -f "$LOG"
  exit 2
fi
rm -f "$LOG"
"$HERE/harness/target/release/vcheck" "$ID" --tier "$TIER" --seed "${VERIF_SEED:-0}" --verif-dir "$HERE" "$@"
rc=$?
if [ $rc -ne 0 ] && [ $rc -ne 1 ] && [ $rc -ne 2 ]; then
  echo "INCONCLUSIVE property=$ID vcheck ended with status $rc"
  exit 2
fi
exit $rc

#!/usr/bin/env python3
"""Regenerates /verif/MANIFEST.json from the table below (single source of truth)."""
import json, os
HERE = os.path.dirname(os.path.dirname(os.path.abspath(__file__)))

# id -> (technique, level text, level note, design ref, fuzz?)
CHECKS = {
 "C01": ("proptest: generated inputs x 24 suites; oracle = both-sided success, key equality, export key / server key round trip",
         "Generated search (no counterexample in N cases): full registration+login on the production build for generated passwords (0..65535 bytes), credential ids (any length), identity spellings, contexts, KSFs and tapes (25% with constant-prefix tapes) on all 20 OPRFxKE suites and 4 real-KSF suites.",
         "Sampling, not absence. Trusts nothing inside opaque-ke; independent tapes assumed collision free.", "5 C01"),
 "C02": ("proptest: near-miss password mutators; oracle = exact InvalidLoginError + positive control",
         "Generated search over (password, near-miss mutation) pairs (bit flips, prefixes/extensions, NUL/space/newline, case, swaps, empty, 65535-byte pairs, len+256 with equal tail) per suite; wrong password must end in exactly InvalidLoginError, right password must succeed in the same sessions.",
         "Sampling. OPRF/hash collisions assumed impossible.", "5 C02"),
 "C03": ("proptest + exhaustive per-case enumeration of finalization mutants (all bit flips / byte substitutions, XOR-cancelling / sum-preserving / permuting multi-byte alterations, publicly computable constants, Nh-byte windows of the server's own responses reflected back; pending states also after a native / bincode / JSON round trip) + libFuzzer target server_finish (thorough) + corpus replay; oracle = acceptance model",
         "For generated pending server states (real, fake-record, wrong-password, answered-twice) every single-bit flip and every single-byte substitution of the genuine finalization plus cross-session/constant/random candidates is delivered to a clone; only the matching finalization may yield a key.",
         "Bit/byte substitutions are exhaustive per sampled state; states are sampled. MAC forgeries not generated are out of reach.", "5 C03"),
 "C04": ("proptest + per-case enumeration of response mutants (offset x value, field mixes, fresh fields, reflection of the client's own request values, XOR-cancelling / sum-preserving / permuting multi-byte alterations per field) + libFuzzer target login_response (thorough) + corpus replay; oracle = acceptance model with alias separation",
         "For generated honest logins every offset of the genuine credential response is substituted (thorough: all 255 values for fast/medium suites), all field-wise mixes with 7 other responses, fresh valid fields and the client's own request values played back in the response (all subsets, own and other session) are tried on clones of the pending client state; only the genuine answers may be accepted.",
         "Sampling over sessions; enumeration bounds stated in evidence. Mutants that re-encode to a genuine response are aliases and left to C10.", "5 C04"),
 "C05": ("proptest: parameter triples in three families; oracle = effective-parameter match model, both directions",
         "Generated (registration, server-start, client-finish) parameter triples: equal-effective respellings, single disagreements, boundary-shifted splits of one concatenation, 255/256/65535 lengths; login must succeed iff effective parameters agree.",
         "Sampling. Client static key learnt from a dry run on equal tapes.", "5 C05"),
 "C06": ("proptest: alternative setups built through the public decoder; oracle = reported key equality + rejection",
         "Generated registrations; the stolen file is served by setups sharing the OPRF seed but holding a fresh / other server's / the fake key pair; client must fail, same-key control must pass, reported server key must equal the setup key.",
         "Sampling.", "5 C06"),
 "C07": ("proptest histories + exhaustive routing enumeration + generated/compiled adversarial histories (altered messages, mismatching parameters, save/restore) through a provenance model; stateful libFuzzer target history (thorough) + seed-history replay; oracle = explicit acceptance model",
         "Per generated history (call order, shared/independent RNGs) over the bounded population of the property, every (request, record, credential id) server session, every response->client and every finalization->server delivery is executed on clones and compared with the matched-conversation model in both directions; session keys pairwise distinct. Second part: 6 compiled histories per case of interleaved conversations with one deviation each, judged by provenance of every delivered message.",
         "Routing is exhaustive for the bounded population per history; histories are sampled.", "5 C07"),
 "C08": ("proptest histories (built around two fake attempts for one request and a real login) + libFuzzer target server_start (thorough) + corpus replay; oracle = structural equality with real responses, reference OPRF evaluation, pairwise freshness, client/server rejection",
         "Generated sequences of fake attempts interleaved with real logins on one server tape: fake responses have the real length/structure, the evaluation element equals the reference oprf_key(seed,cred)*request and the real-record one, other fields differ across attempts, client fails with InvalidLoginError as for a wrong password, no finalization completes the fake state.",
         "'Unpredictable' is checked as inequality + witness to fresh draws, not computational indistinguishability.", "5 C08"),
 "C09": ("proptest differential against an independent RFC 9807/9497 reference model pinned by RFC vectors",
         "Every byte of every message, the password file, export key, session keys and the pending server state is reproduced by an independent reference implementation from the inputs and the witnessed random choices, on all 24 suites incl. fake records, wrong passwords, 65535-byte parameters, and Argon2 instances with a configured output length (refused, or still T = Nh).",
         "Trusted base: sha2, voprf hash-to-group, curve crates, argon2, pinned at start-up by RFC 9807 App. C (6+3), RFC 9497 App. A (OPRF mode, 4 suites), RFC 7748 vectors.", "5 C09"),
 "C10": ("proptest + per-case enumeration (all lengths 0..len+64, all tag bytes, byte substitutions, non-reduced forms) + libFuzzer target `decoders` (thorough); oracle = decode(b)=Ok(x) => encode(x)=b",
         "For valid encodings of all 11 native decoders from generated honest runs: every truncation/extension length, every leading byte of every group-element field, single-byte substitutions at every offset, non-reduced scalars/field elements, random strings; accepted strings must have the fixed length and re-encode to themselves.",
         "Lengths/tags exhaustive per sampled encoding; encodings sampled. Thorough adds coverage-guided fuzzing.", "5 C10"),
 "C11": ("proptest + table-driven invalid-encoding splicing through native/bincode/JSON decoders; independent validity predicate",
         "Every group-element/scalar field of every type gets every invalid encoding class (identity, off-curve, out-of-range, non-canonical/negative ristretto, small-order Curve25519 in all representable forms, zero/>=order scalars) with all other fields valid, through the native, bincode and JSON decoders; all must be rejected.",
         "Class table is applied exhaustively; values inside a class are sampled. Invalidity is confirmed by a predicate built on the curve crates.", "5 C11"),
 "C12": ("proptest + catch_unwind around every call: random/mutated decoder inputs, adversarial field values (invalid encodings, and valid values taken from other positions of the same run) that are then used, cross-session deliveries, per-step over-limit refusal grid, awkward KSF parameters; libFuzzer targets decoders and server_start (thorough) + corpus replay; the whole check runs a second time on a build with overflow checks and debug assertions",
         "No call may panic; in-range lengths complete, over-limit password/identity/context never complete a registration or login.",
         "Sampling; non-termination is reported as inconclusive by a watchdog.", "5 C12"),
 "C13": ("proptest differential: run with save/reload plans (native, bincode, JSON at 5 persistence points) vs uninterrupted run on equal tapes; libFuzzer targets decoders (accepted values survive every codec) and history (states pushed through a codec between the steps of adversarial histories) in the thorough tier + corpus replay; generated adversarial histories run with and without reloads on equal tapes and compared outcome by outcome",
         "Reload plans (all 1024 in the thorough tier for one input per suite, plus sampled) must give byte-identical messages, states, keys and results.",
         "Plans exhaustive in thorough for one input per suite; inputs sampled.", "5 C13"),
 "C14": ("proptest metamorphic relations between runs + reference OPRF evaluation",
         "Blind-independence of everything derived, dependence on password/credential id/seed, server evaluation a function of (seed, cred id, request) only.",
         "Sampling; 'unrelated' is checked as inequality.", "5 C14"),
 "C15": ("proptest over the KSF instance tables (journalling DynKsf, a zero-sized KSF type, the crate's Identity and Argon2 incl. algorithm/version/secret variants) with fault injection and cloned parameter structs",
         "Exactly one KSF call per client finish on the right instance and input; equal parameters succeed, different fail; explicit default == absent; injected failures surface as errors.",
         "6x6 instance table exhaustive per input; inputs sampled.", "5 C15"),
 "C16": ("proptest histories (register/re-register/login) against a model map + substring scan for secrets",
         "Export key stability and separation across histories; no export key, session key or long password occurs verbatim in any message or file.",
         "Sampling.", "5 C16"),
 "C17": ("proptest over tape pairs (equal, independent, spliced after byte n, zero-prefixed) + RNG fault injection at every call index + KeGroup::random_sk on 32 independent tapes; determinism differential, freshness, per-value tape-location relations",
         "Equal tapes give equal outputs (no hidden entropy); every random value varies with the tape, is pairwise distinct and is witnessed by a recorded draw.",
         "Sampling; the recording RNG is the only entropy source offered.", "5 C17"),
 "C18": ("proptest differential direct key vs journalling RemoteKey implementation of SecretKey (raw, handle-serialising, and a second key type with a 16-byte slot handle, SecretKey::Len != Nsk) + fault injection at every call index of login start, registration start, key-pair construction and setup restore",
         "Byte-identical outputs with an external key using only public_key/diffie_hellman; a failure at call n is returned as that error without output, for every n.",
         "Fault positions exhaustive per sampled input.", "5 C18"),
 "C19": ("proptest algebraic laws + differential against curve crates and reference DeriveDiffieHellmanKeyPair",
         "DH symmetry, public-key consistency, exact key round trips (native/serde), seeded derivation equal to the RFC function, for random and extreme keys/seeds on all 5 groups x 4 OPRF suites.",
         "Sampling plus fixed extremes.", "5 C19"),
}

def built():
    reg = open(os.path.join(HERE, "harness/src/props/mod.rs")).read()
    return [c for c in sorted(CHECKS) if f'("{c}",' in reg]

def main():
    ids = built()
    checks = []
    for c in ids:
        tech, text, note, ref = CHECKS[c]
        checks.append({
            "property_id": c,
            "quick_cmd": f"./run_check.sh {c} quick",
            "thorough_cmd": f"./run_check.sh {c} thorough",
            "evidence_file": f"/verif/evidence/{c}.json",
            "replay_cmd_template": f"./run_check.sh {c} quick --replay {{path}}",
            "engine": "vharness",
            "level_claimed": {"category": "exploration", "text": text, "design_ref": "DESIGN.md section " + ref},
            "level_note": note,
            "technique": tech,
        })
    allp = [json.loads(l)["id"] for l in open(os.path.join(HERE, "properties.jsonl"))]
    na = [{"property_id": p, "reason": "check under construction in this session (not a limit of the technique); not claimed until built and validated"} for p in allp if p not in ids]
    m = {
        "version": 1,
        "setup_cmd": "CARGO_NET_OFFLINE=true cargo build --release --offline --manifest-path /verif/harness/Cargo.toml",
        "hooks": {
            "guard": "opaque_ke_verif",
            "enable": "no hooks: every observation point is reachable through the public API plus harness-side implementations of the public traits RngCore, Ksf and SecretKey; the harness is a separate crate with a path dependency on /repo, so it links the production (cfg(not(test))) build of the current working tree. The guard name is reserved and unused.",
            "baseline_off_cmd": "cd /repo && cargo test --workspace --no-fail-fast --offline",
            "source_commits": [],
            "add_only": True,
        },
        "engines": [
            {"name": "vharness", "path": "/verif/harness", "serves_properties": ids,
             "kind_free_text": "Rust crate (stable toolchain): proptest-driven generated search with explicit oracles (RFC reference model, acceptance models, metamorphic/differential relations), per-case bounded enumeration, fault injection (RNG, KSF, external key), shrinking to replay files"},
            {"name": "vfuzz", "path": "/verif/fuzz", "serves_properties": ["C03", "C04", "C07", "C08", "C10", "C11", "C12", "C13"],
             "kind_free_text": "cargo-fuzz / libFuzzer targets (nightly) decoders, login_response, server_finish, server_start, history (stateful); oracles live in the harness library, so the committed corpus is replayed by the stable binary in the quick tier and crashes are confirmed on the production profile"},
        ],
        "checks": checks,
        "notes": "Genuine defects found and repaired in /repo by 'fix:' commits are listed in /verif/known_findings.json (status fixed; they suppress nothing). Exit codes: 0 held, 1 VIOLATION, 2 INCONCLUSIVE (build failure, watchdog, oracle self-test failure).",
        "not_applicable": na,
    }
    json.dump(m, open(os.path.join(HERE, "MANIFEST.json"), "w"), indent=1)
    print("MANIFEST.json:", len(checks), "checks,", len(na), "not yet claimed")

main()

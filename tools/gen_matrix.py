#!/usr/bin/env python3
"""Summarises /verif/seeded/*/ (confirm.log, checks_quick.log, meta.json) into seeded/MATRIX.md and
writes each seeded change's meta.json 'verification' block."""
import os, re, json, glob
HERE=os.path.dirname(os.path.dirname(os.path.abspath(__file__)))
rows=[]
for d in sorted(glob.glob(os.path.join(HERE,"seeded","C*-*"))):
    name=os.path.basename(d)
    meta={}
    try: meta=json.load(open(os.path.join(d,"meta.json")))
    except Exception: pass
    conf=""
    try: conf=open(os.path.join(d,"confirm.log")).read().strip().splitlines()[-1]
    except Exception: pass
    confirmed="CONFIRMED" in conf and "NOT-CONFIRMED" not in conf
    det=[]; inc=[]
    logs=("checks_final.log",) if os.path.exists(os.path.join(d,"checks_final.log")) and os.path.getsize(os.path.join(d,"checks_final.log"))>0 else ("checks_quick.log","checks_rerun.log")
    for f in logs:
        try:
            for l in open(os.path.join(d,f)):
                m=re.search(r" (C\d\d)(?:@checked)? exit=(\d)",l)   # C12@checked = C12's pass on the checked profile (part of run_check.sh C12)
                if m and m.group(2)=="1" and m.group(1) not in det: det.append(m.group(1))
                if m and m.group(2)=="2" and m.group(1) not in inc: inc.append(m.group(1))
        except Exception: pass
    target=name.split("-")[0]
    rows.append((name,target,confirmed,det,inc,meta.get("summary","")[:160].replace("|","/"),meta.get("needs_to_manifest","")[:160].replace("|","/")))
    meta["verification_by_verif"]={"independently_confirmed":confirmed,"confirm_line":conf,
        "commands":["selftest/confirm_seeded.sh seeded/%s"%name,"selftest/run_mutant.sh seeded/%s/patch.diff quick C01..C19"%name],
        "detected_by_quick_checks":det,"target_property_detects":target in det}
    json.dump(meta,open(os.path.join(d,"meta.json"),"w"),indent=1)
out=["# Seeded changes (written by fresh sub-agents from the property text only) vs. the quick checks","",
 "| change | target | confirmed (suite passes, demo fails only with change) | detected by (quick tier, seed 0) | target check detects | what it does | needs to manifest |","|---|---|---|---|---|---|---|"]
for r in rows:
    out.append("| %s | %s | %s | %s | %s | %s | %s |"%(r[0],r[1],"yes" if r[2] else "NO"," ".join(r[3]) or "-", "yes" if r[1] in r[3] else "**no**", r[5], r[6]))
open(os.path.join(HERE,"seeded","MATRIX.md"),"w").write("\n".join(out)+"\n")
print("\n".join(out[3:]))

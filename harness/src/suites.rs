//! The 20 (OPRF suite x KE group) cipher suites (with `DynKsf`) plus four suites
//! using the crate's real KSF types, each implementing `Proto`.

use std::any::Any;
use std::convert::Infallible;

use generic_array::typenum::Unsigned;
use generic_array::GenericArray;
use opaque_ke::errors::{InternalError, ProtocolError};
use opaque_ke::key_exchange::group::KeGroup;
use opaque_ke::key_exchange::tripledh::TripleDh;
use opaque_ke::keypair::{KeyPair, PrivateKey, PublicKey, SecretKey};
use opaque_ke::{
    CipherSuite, ClientLogin, ClientLoginFinishParameters, ClientLoginFinishResult,
    ClientLoginStartResult, ClientRegistration, ClientRegistrationFinishParameters,
    ClientRegistrationFinishResult, ClientRegistrationStartResult, CredentialFinalization,
    CredentialRequest, CredentialResponse, Identifiers, RegistrationRequest, RegistrationResponse,
    RegistrationUpload, ServerLogin, ServerLoginFinishResult, ServerLoginStartParameters,
    ServerLoginStartResult, ServerRegistration, ServerRegistrationStartResult, ServerSetup,
};
use serde::de::DeserializeOwned;


use crate::ksf::{DynKsf, KsfBuild, KsfSpec};
use crate::proto::*;
use crate::remote::{self, RemoteErr, RemoteKey, RemoteKeyH};
use crate::tape::TapeRng;

// ------------------------------------------------------------------ errors

pub fn conv_i<T>(e: InternalError<T>, f: &dyn Fn(T) -> u32) -> IErr {
    match e {
        InternalError::Custom(t) => IErr::Custom(f(t)),
        InternalError::InvalidByteSequence => IErr::InvalidByteSequence,
        InternalError::SizeError {
            name,
            len,
            actual_len,
        } => IErr::Size {
            name: name.to_string(),
            len,
            actual: actual_len,
        },
        InternalError::PointError => IErr::Point,
        InternalError::HashToScalar => IErr::HashToScalar,
        InternalError::HkdfError => IErr::Hkdf,
        InternalError::HmacError => IErr::Hmac,
        InternalError::KsfError => IErr::Ksf,
        InternalError::SealOpenHmacError => IErr::SealOpenHmac,
        InternalError::IncompatibleEnvelopeModeError => IErr::IncompatibleEnvelopeMode,
        InternalError::OprfError(e) => IErr::Oprf(format!("{e:?}")),
        InternalError::OprfInternalError(e) => IErr::OprfInternal(format!("{e:?}")),
    }
}

pub fn conv_p<T>(e: ProtocolError<T>, f: &dyn Fn(T) -> u32) -> PErr {
    match e {
        ProtocolError::LibraryError(i) => PErr::Library(conv_i(i, f)),
        ProtocolError::InvalidLoginError => PErr::InvalidLogin,
        ProtocolError::SerializationError => PErr::Serialization,
        ProtocolError::ReflectedValueError => PErr::Reflected,
        ProtocolError::IdentityGroupElementError => PErr::IdentityElement,
    }
}

fn inf(x: Infallible) -> u32 {
    match x {}
}
fn rem(x: RemoteErr) -> u32 {
    x.0
}
fn cp(e: ProtocolError) -> PErr {
    conv_p(e, &inf)
}
fn ci(e: InternalError) -> IErr {
    conv_i(e, &inf)
}
fn cpr(e: ProtocolError<RemoteErr>) -> PErr {
    conv_p(e, &rem)
}

// ------------------------------------------------------------------ codecs

pub trait NativeCodec: Sized + Clone + Send + Sync + 'static {
    fn ser_native(&self) -> Vec<u8>;
    fn de_native(b: &[u8]) -> PResult<Self>;
}

fn ser_val<T: NativeCodec + serde::Serialize>(codec: Codec, v: &T) -> Vec<u8> {
    match codec {
        Codec::Native => v.ser_native(),
        Codec::Bincode => bincode::serialize(v).expect("HARNESS-BUG: bincode serialize failed"),
        Codec::Json => serde_json::to_vec(v).expect("HARNESS-BUG: json serialize failed"),
    }
}

fn de_val<T: NativeCodec + DeserializeOwned>(codec: Codec, b: &[u8]) -> PResult<T> {
    match codec {
        Codec::Native => T::de_native(b),
        Codec::Bincode => {
            // reject trailing bytes like a strict application would
            use bincode::Options;
            bincode::DefaultOptions::new()
                .with_fixint_encoding()
                .reject_trailing_bytes()
                .deserialize::<T>(b)
                .map_err(|e| PErr::Serde(e.to_string()))
        }
        Codec::Json => serde_json::from_slice::<T>(b).map_err(|e| PErr::Serde(e.to_string())),
    }
}

// Key types are per KE group (shared by several suites), so they get generic
// helpers instead of `NativeCodec` impls.
mod keys {
    use super::*;

    pub fn pk_ser<KG: KeGroup>(codec: Codec, v: &PublicKey<KG>) -> Vec<u8> {
        match codec {
            Codec::Native => v.serialize().to_vec(),
            Codec::Bincode => bincode::serialize(v).expect("HARNESS-BUG: bincode"),
            Codec::Json => serde_json::to_vec(v).expect("HARNESS-BUG: json"),
        }
    }
    pub fn pk_de<KG: KeGroup>(codec: Codec, b: &[u8]) -> PResult<PublicKey<KG>> {
        match codec {
            Codec::Native => PublicKey::<KG>::deserialize(b).map_err(|e| PErr::Library(ci(e))),
            Codec::Bincode => {
                use bincode::Options;
                bincode::DefaultOptions::new()
                    .with_fixint_encoding()
                    .reject_trailing_bytes()
                    .deserialize(b)
                    .map_err(|e| PErr::Serde(e.to_string()))
            }
            Codec::Json => serde_json::from_slice(b).map_err(|e| PErr::Serde(e.to_string())),
        }
    }
    pub fn sk_ser<KG: KeGroup>(codec: Codec, v: &PrivateKey<KG>) -> Vec<u8> {
        match codec {
            Codec::Native => v.serialize().to_vec(),
            Codec::Bincode => bincode::serialize(v).expect("HARNESS-BUG: bincode"),
            Codec::Json => serde_json::to_vec(v).expect("HARNESS-BUG: json"),
        }
    }
    pub fn sk_de<KG: KeGroup>(codec: Codec, b: &[u8]) -> PResult<PrivateKey<KG>> {
        match codec {
            Codec::Native => {
                <PrivateKey<KG> as SecretKey<KG>>::deserialize(b).map_err(|e| PErr::Library(ci(e)))
            }
            Codec::Bincode => {
                use bincode::Options;
                bincode::DefaultOptions::new()
                    .with_fixint_encoding()
                    .reject_trailing_bytes()
                    .deserialize(b)
                    .map_err(|e| PErr::Serde(e.to_string()))
            }
            Codec::Json => serde_json::from_slice(b).map_err(|e| PErr::Serde(e.to_string())),
        }
    }
    pub fn kp_ser<KG: KeGroup>(codec: Codec, v: &KeyPair<KG>) -> Vec<u8> {
        match codec {
            Codec::Native => v.private().serialize().to_vec(),
            Codec::Bincode => bincode::serialize(v).expect("HARNESS-BUG: bincode"),
            Codec::Json => serde_json::to_vec(v).expect("HARNESS-BUG: json"),
        }
    }
    pub fn kp_de<KG: KeGroup>(codec: Codec, b: &[u8]) -> PResult<KeyPair<KG>> {
        match codec {
            Codec::Native => KeyPair::<KG>::from_private_key_slice(b).map_err(cp),
            Codec::Bincode => {
                use bincode::Options;
                bincode::DefaultOptions::new()
                    .with_fixint_encoding()
                    .reject_trailing_bytes()
                    .deserialize(b)
                    .map_err(|e| PErr::Serde(e.to_string()))
            }
            Codec::Json => serde_json::from_slice(b).map_err(|e| PErr::Serde(e.to_string())),
        }
    }
}

fn mk(ty: Ty, suite: &'static str, v: impl Any + Send + Sync) -> Obj {
    Obj {
        ty,
        suite,
        inner: Box::new(v),
    }
}

fn ids_of<'a>(ids: Ids<'a>) -> Identifiers<'a> {
    Identifiers {
        client: ids.client,
        server: ids.server,
    }
}

macro_rules! native_codec {
    ($t:ty, |$e:ident| $conv:expr) => {
        impl NativeCodec for $t {
            fn ser_native(&self) -> Vec<u8> {
                self.serialize().to_vec()
            }
            fn de_native(b: &[u8]) -> PResult<Self> {
                <$t>::deserialize(b).map_err(|$e| $conv)
            }
        }
    };
}

macro_rules! suite {
    ($name:ident, $label:expr, $oprf:ty, $ke:ty, $ksf:ty, $oprf_kind:expr, $ke_kind:expr, $ksf_kind:expr) => {
        pub struct $name;

        impl CipherSuite for $name {
            type OprfCs = $oprf;
            type KeGroup = $ke;
            type KeyExchange = TripleDh;
            type Ksf = $ksf;
        }

        native_codec!(RegistrationRequest<$name>, |e| cp(e));
        native_codec!(RegistrationResponse<$name>, |e| cp(e));
        native_codec!(RegistrationUpload<$name>, |e| cp(e));
        native_codec!(CredentialRequest<$name>, |e| cp(e));
        native_codec!(CredentialResponse<$name>, |e| cp(e));
        native_codec!(CredentialFinalization<$name>, |e| cp(e));
        native_codec!(ServerRegistration<$name>, |e| cp(e));
        native_codec!(ServerSetup<$name>, |e| cp(e));
        native_codec!(ClientRegistration<$name>, |e| cp(e));
        native_codec!(ClientLogin<$name>, |e| cp(e));
        native_codec!(ServerLogin<$name>, |e| cp(e));

        impl $name {
            fn build_ksf(spec: Option<&KsfSpec>) -> Option<$ksf> {
                spec.map(|s| {
                    <$ksf as KsfBuild>::build(0x1000, s).unwrap_or_else(|| {
                        panic!("HARNESS-BUG: suite {} cannot build KSF {:?}", $label, s)
                    })
                })
            }
        }

        impl Proto for $name {
            fn meta(&self) -> Meta {
                Meta {
                    name: $label,
                    oprf: $oprf_kind,
                    ke: $ke_kind,
                    ksf: $ksf_kind,
                    noe: <<<$oprf as voprf::CipherSuite>::Group as voprf::Group>::ElemLen as Unsigned>::USIZE,
                    nok: <<<$oprf as voprf::CipherSuite>::Group as voprf::Group>::ScalarLen as Unsigned>::USIZE,
                    npk: <<$ke as KeGroup>::PkLen as Unsigned>::USIZE,
                    nsk: <<$ke as KeGroup>::SkLen as Unsigned>::USIZE,
                    nh: <<<$oprf as voprf::CipherSuite>::Hash as digest::OutputSizeUser>::OutputSize as Unsigned>::USIZE,
                    nn: 32,
                }
            }

            fn ser(&self, codec: Codec, o: &Obj) -> Vec<u8> {
                match o.ty {
                    Ty::RegReq => ser_val(codec, o.get::<RegistrationRequest<$name>>()),
                    Ty::RegResp => ser_val(codec, o.get::<RegistrationResponse<$name>>()),
                    Ty::RegUpload => ser_val(codec, o.get::<RegistrationUpload<$name>>()),
                    Ty::CredReq => ser_val(codec, o.get::<CredentialRequest<$name>>()),
                    Ty::CredResp => ser_val(codec, o.get::<CredentialResponse<$name>>()),
                    Ty::CredFin => ser_val(codec, o.get::<CredentialFinalization<$name>>()),
                    Ty::ServerReg => ser_val(codec, o.get::<ServerRegistration<$name>>()),
                    Ty::ServerSetup => ser_val(codec, o.get::<ServerSetup<$name>>()),
                    Ty::ClientReg => ser_val(codec, o.get::<ClientRegistration<$name>>()),
                    Ty::ClientLogin => ser_val(codec, o.get::<ClientLogin<$name>>()),
                    Ty::ServerLogin => ser_val(codec, o.get::<ServerLogin<$name>>()),
                    Ty::PublicKey => keys::pk_ser::<$ke>(codec, o.get::<PublicKey<$ke>>()),
                    Ty::PrivateKey => keys::sk_ser::<$ke>(codec, o.get::<PrivateKey<$ke>>()),
                    Ty::KeyPair => keys::kp_ser::<$ke>(codec, o.get::<KeyPair<$ke>>()),
                }
            }

            fn de(&self, codec: Codec, ty: Ty, b: &[u8]) -> PResult<Obj> {
                let s = $label;
                Ok(match ty {
                    Ty::RegReq => mk(ty, s, de_val::<RegistrationRequest<$name>>(codec, b)?),
                    Ty::RegResp => mk(ty, s, de_val::<RegistrationResponse<$name>>(codec, b)?),
                    Ty::RegUpload => mk(ty, s, de_val::<RegistrationUpload<$name>>(codec, b)?),
                    Ty::CredReq => mk(ty, s, de_val::<CredentialRequest<$name>>(codec, b)?),
                    Ty::CredResp => mk(ty, s, de_val::<CredentialResponse<$name>>(codec, b)?),
                    Ty::CredFin => mk(ty, s, de_val::<CredentialFinalization<$name>>(codec, b)?),
                    Ty::ServerReg => mk(ty, s, de_val::<ServerRegistration<$name>>(codec, b)?),
                    Ty::ServerSetup => mk(ty, s, de_val::<ServerSetup<$name>>(codec, b)?),
                    Ty::ClientReg => mk(ty, s, de_val::<ClientRegistration<$name>>(codec, b)?),
                    Ty::ClientLogin => mk(ty, s, de_val::<ClientLogin<$name>>(codec, b)?),
                    Ty::ServerLogin => mk(ty, s, de_val::<ServerLogin<$name>>(codec, b)?),
                    Ty::PublicKey => mk(ty, s, keys::pk_de::<$ke>(codec, b)?),
                    Ty::PrivateKey => mk(ty, s, keys::sk_de::<$ke>(codec, b)?),
                    Ty::KeyPair => mk(ty, s, keys::kp_de::<$ke>(codec, b)?),
                })
            }

            fn clone_obj(&self, o: &Obj) -> Obj {
                let s = $label;
                let ty = o.ty;
                match ty {
                    Ty::RegReq => mk(ty, s, o.get::<RegistrationRequest<$name>>().clone()),
                    Ty::RegResp => mk(ty, s, o.get::<RegistrationResponse<$name>>().clone()),
                    Ty::RegUpload => mk(ty, s, o.get::<RegistrationUpload<$name>>().clone()),
                    Ty::CredReq => mk(ty, s, o.get::<CredentialRequest<$name>>().clone()),
                    Ty::CredResp => mk(ty, s, o.get::<CredentialResponse<$name>>().clone()),
                    Ty::CredFin => mk(ty, s, o.get::<CredentialFinalization<$name>>().clone()),
                    Ty::ServerReg => mk(ty, s, o.get::<ServerRegistration<$name>>().clone()),
                    Ty::ServerSetup => mk(ty, s, o.get::<ServerSetup<$name>>().clone()),
                    Ty::ClientReg => mk(ty, s, o.get::<ClientRegistration<$name>>().clone()),
                    Ty::ClientLogin => mk(ty, s, o.get::<ClientLogin<$name>>().clone()),
                    Ty::ServerLogin => mk(ty, s, o.get::<ServerLogin<$name>>().clone()),
                    Ty::PublicKey => mk(ty, s, o.get::<PublicKey<$ke>>().clone()),
                    Ty::PrivateKey => mk(ty, s, o.get::<PrivateKey<$ke>>().clone()),
                    Ty::KeyPair => mk(ty, s, o.get::<KeyPair<$ke>>().clone()),
                }
            }

            fn setup_new(&self, rng: &mut TapeRng) -> Obj {
                mk(Ty::ServerSetup, $label, ServerSetup::<$name>::new(rng))
            }

            fn setup_new_with_key(&self, rng: &mut TapeRng, sk: &[u8]) -> PResult<Obj> {
                let kp = KeyPair::<$ke>::from_private_key_slice(sk).map_err(cp)?;
                Ok(mk(
                    Ty::ServerSetup,
                    $label,
                    ServerSetup::<$name>::new_with_key(rng, kp),
                ))
            }

            fn setup_public_key(&self, setup: &Obj) -> Vec<u8> {
                setup
                    .get::<ServerSetup<$name>>()
                    .keypair()
                    .public()
                    .serialize()
                    .to_vec()
            }

            fn setup_private_key(&self, setup: &Obj) -> Vec<u8> {
                setup
                    .get::<ServerSetup<$name>>()
                    .keypair()
                    .private()
                    .serialize()
                    .to_vec()
            }

            fn client_reg_start(&self, rng: &mut TapeRng, pw: &[u8]) -> PResult<(Obj, Obj)> {
                // exhaustive destructuring: does not compile against a cfg(test) build
                let ClientRegistrationStartResult { message, state } =
                    ClientRegistration::<$name>::start(rng, pw).map_err(cp)?;
                Ok((mk(Ty::RegReq, $label, message), mk(Ty::ClientReg, $label, state)))
            }

            fn server_reg_start(&self, setup: &Obj, req: &Obj, cred_id: &[u8]) -> PResult<Obj> {
                let ServerRegistrationStartResult { message } = ServerRegistration::<$name>::start(
                    setup.get::<ServerSetup<$name>>(),
                    req.get::<RegistrationRequest<$name>>().clone(),
                    cred_id,
                )
                .map_err(cp)?;
                Ok(mk(Ty::RegResp, $label, message))
            }

            fn client_reg_finish(
                &self,
                state: Obj,
                rng: &mut TapeRng,
                pw: &[u8],
                resp: &Obj,
                ids: Ids,
                ksf: Option<&KsfSpec>,
            ) -> PResult<RegFinish> {
                let k = Self::build_ksf(ksf);
                let params = ClientRegistrationFinishParameters::<$name>::new(ids_of(ids), k.as_ref());
                let params = if clone_params() { params.clone() } else { params };
                let ClientRegistrationFinishResult {
                    message,
                    export_key,
                    server_s_pk,
                } = state
                    .take::<ClientRegistration<$name>>()
                    .finish(
                        rng,
                        pw,
                        resp.get::<RegistrationResponse<$name>>().clone(),
                        params,
                    )
                    .map_err(cp)?;
                Ok(RegFinish {
                    upload: mk(Ty::RegUpload, $label, message),
                    export_key: export_key.to_vec(),
                    server_s_pk: server_s_pk.serialize().to_vec(),
                })
            }

            fn server_reg_finish(&self, upload: &Obj) -> Obj {
                mk(
                    Ty::ServerReg,
                    $label,
                    ServerRegistration::<$name>::finish(upload.get::<RegistrationUpload<$name>>().clone()),
                )
            }

            fn client_login_start(&self, rng: &mut TapeRng, pw: &[u8]) -> PResult<(Obj, Obj)> {
                let ClientLoginStartResult { message, state } =
                    ClientLogin::<$name>::start(rng, pw).map_err(cp)?;
                Ok((mk(Ty::CredReq, $label, message), mk(Ty::ClientLogin, $label, state)))
            }

            fn server_login_start(
                &self,
                rng: &mut TapeRng,
                setup: &Obj,
                record: Option<&Obj>,
                req: &Obj,
                cred_id: &[u8],
                ctx: Option<&[u8]>,
                ids: Ids,
            ) -> PResult<(Obj, Obj)> {
                let ServerLoginStartResult { message, state } = ServerLogin::<$name>::start(
                    rng,
                    setup.get::<ServerSetup<$name>>(),
                    record.map(|r| r.get::<ServerRegistration<$name>>().clone()),
                    req.get::<CredentialRequest<$name>>().clone(),
                    cred_id,
                    {
                        let p = ServerLoginStartParameters {
                            context: ctx,
                            identifiers: ids_of(ids),
                        };
                        if clone_params() {
                            p.clone()
                        } else {
                            p
                        }
                    },
                )
                .map_err(cp)?;
                Ok((mk(Ty::CredResp, $label, message), mk(Ty::ServerLogin, $label, state)))
            }

            fn client_login_finish(
                &self,
                state: Obj,
                pw: &[u8],
                resp: &Obj,
                ctx: Option<&[u8]>,
                ids: Ids,
                ksf: Option<&KsfSpec>,
            ) -> PResult<LoginFinish> {
                let k = Self::build_ksf(ksf);
                let params = ClientLoginFinishParameters::<$name>::new(ctx, ids_of(ids), k.as_ref());
                let params = if clone_params() { params.clone() } else { params };
                let ClientLoginFinishResult {
                    message,
                    session_key,
                    export_key,
                    server_s_pk,
                } = state
                    .take::<ClientLogin<$name>>()
                    .finish(pw, resp.get::<CredentialResponse<$name>>().clone(), params)
                    .map_err(cp)?;
                Ok(LoginFinish {
                    fin: mk(Ty::CredFin, $label, message),
                    session_key: session_key.to_vec(),
                    export_key: export_key.to_vec(),
                    server_s_pk: server_s_pk.serialize().to_vec(),
                })
            }

            fn server_login_finish(&self, state: Obj, fin: &Obj) -> PResult<Vec<u8>> {
                let ServerLoginFinishResult { session_key } = state
                    .take::<ServerLogin<$name>>()
                    .finish(fin.get::<CredentialFinalization<$name>>().clone())
                    .map_err(cp)?;
                Ok(session_key.to_vec())
            }

            // ---------------------------------------------------- remote key

            fn remote_setup_new_with_key(
                &self,
                rng: &mut TapeRng,
                sk: &[u8],
            ) -> PResult<Box<dyn Any + Send + Sync>> {
                let inner = <PrivateKey<$ke> as SecretKey<$ke>>::deserialize(sk)
                    .map_err(|e| PErr::Library(ci(e)))?;
                if remote::short_handle() {
                    let kp = KeyPair::<$ke, RemoteKeyH<$ke>>::from_private_key(RemoteKeyH::new(inner))
                        .map_err(cpr)?;
                    return Ok(Box::new(ServerSetup::<$name, RemoteKeyH<$ke>>::new_with_key(rng, kp)));
                }
                let kp = KeyPair::<$ke, RemoteKey<$ke>>::from_private_key(RemoteKey::new(inner))
                    .map_err(cpr)?;
                Ok(Box::new(ServerSetup::<$name, RemoteKey<$ke>>::new_with_key(rng, kp)))
            }

            fn remote_setup_serialize(&self, setup: &(dyn Any + Send + Sync)) -> Vec<u8> {
                if let Some(h) = setup.downcast_ref::<ServerSetup<$name, RemoteKeyH<$ke>>>() {
                    return h.serialize().to_vec();
                }
                setup
                    .downcast_ref::<ServerSetup<$name, RemoteKey<$ke>>>()
                    .expect("HARNESS-BUG: remote setup type")
                    .serialize()
                    .to_vec()
            }

            fn remote_setup_deserialize(&self, bytes: &[u8]) -> PResult<Box<dyn Any + Send + Sync>> {
                if remote::short_handle() {
                    let s = ServerSetup::<$name, RemoteKeyH<$ke>>::deserialize(bytes).map_err(cpr)?;
                    return Ok(Box::new(s));
                }
                let s = ServerSetup::<$name, RemoteKey<$ke>>::deserialize(bytes).map_err(cpr)?;
                Ok(Box::new(s))
            }

            fn remote_server_reg_start(
                &self,
                setup: &(dyn Any + Send + Sync),
                req: &Obj,
                cred_id: &[u8],
            ) -> PResult<Obj> {
                if let Some(h) = setup.downcast_ref::<ServerSetup<$name, RemoteKeyH<$ke>>>() {
                    let ServerRegistrationStartResult { message } = ServerRegistration::<$name>::start(
                        h,
                        req.get::<RegistrationRequest<$name>>().clone(),
                        cred_id,
                    )
                    .map_err(cp)?;
                    return Ok(mk(Ty::RegResp, $label, message));
                }
                let setup = setup
                    .downcast_ref::<ServerSetup<$name, RemoteKey<$ke>>>()
                    .expect("HARNESS-BUG: remote setup type");
                let ServerRegistrationStartResult { message } = ServerRegistration::<$name>::start(
                    setup,
                    req.get::<RegistrationRequest<$name>>().clone(),
                    cred_id,
                )
                .map_err(cp)?;
                Ok(mk(Ty::RegResp, $label, message))
            }

            fn remote_server_login_start(
                &self,
                rng: &mut TapeRng,
                setup: &(dyn Any + Send + Sync),
                record: Option<&Obj>,
                req: &Obj,
                cred_id: &[u8],
                ctx: Option<&[u8]>,
                ids: Ids,
            ) -> PResult<(Obj, Obj)> {
                if let Some(h) = setup.downcast_ref::<ServerSetup<$name, RemoteKeyH<$ke>>>() {
                    let ServerLoginStartResult { message, state } = ServerLogin::<$name>::start(
                        rng,
                        h,
                        record.map(|r| r.get::<ServerRegistration<$name>>().clone()),
                        req.get::<CredentialRequest<$name>>().clone(),
                        cred_id,
                        ServerLoginStartParameters {
                            context: ctx,
                            identifiers: ids_of(ids),
                        },
                    )
                    .map_err(cpr)?;
                    return Ok((mk(Ty::CredResp, $label, message), mk(Ty::ServerLogin, $label, state)));
                }
                let setup = setup
                    .downcast_ref::<ServerSetup<$name, RemoteKey<$ke>>>()
                    .expect("HARNESS-BUG: remote setup type");
                let ServerLoginStartResult { message, state } = ServerLogin::<$name>::start(
                    rng,
                    setup,
                    record.map(|r| r.get::<ServerRegistration<$name>>().clone()),
                    req.get::<CredentialRequest<$name>>().clone(),
                    cred_id,
                    ServerLoginStartParameters {
                        context: ctx,
                        identifiers: ids_of(ids),
                    },
                )
                .map_err(cpr)?;
                Ok((mk(Ty::CredResp, $label, message), mk(Ty::ServerLogin, $label, state)))
            }

            // ---------------------------------------------------- key API

            fn pk_deserialize(&self, bytes: &[u8]) -> Result<Vec<u8>, IErr> {
                PublicKey::<$ke>::deserialize(bytes)
                    .map(|p| p.serialize().to_vec())
                    .map_err(ci)
            }
            fn sk_deserialize(&self, bytes: &[u8]) -> Result<Vec<u8>, IErr> {
                <PrivateKey<$ke> as SecretKey<$ke>>::deserialize(bytes)
                    .map(|p| p.serialize().to_vec())
                    .map_err(ci)
            }
            fn kg_pk_roundtrip(&self, bytes: &[u8]) -> Result<Vec<u8>, IErr> {
                <$ke as KeGroup>::deserialize_pk(bytes)
                    .map(|p| <$ke as KeGroup>::serialize_pk(p).to_vec())
                    .map_err(ci)
            }
            fn kg_sk_roundtrip(&self, bytes: &[u8]) -> Result<Vec<u8>, IErr> {
                <$ke as KeGroup>::deserialize_sk(bytes)
                    .map(|p| <$ke as KeGroup>::serialize_sk(p).to_vec())
                    .map_err(ci)
            }
            fn keypair_from_private_key_slice(&self, sk: &[u8]) -> PResult<(Vec<u8>, Vec<u8>)> {
                let kp = KeyPair::<$ke>::from_private_key_slice(sk).map_err(cp)?;
                Ok((
                    kp.public().serialize().to_vec(),
                    kp.private().serialize().to_vec(),
                ))
            }
            fn keypair_from_private_key(&self, sk: &[u8]) -> PResult<(Vec<u8>, Vec<u8>)> {
                let k = <PrivateKey<$ke> as SecretKey<$ke>>::deserialize(sk)
                    .map_err(|e| PErr::Library(ci(e)))?;
                let kp = KeyPair::<$ke>::from_private_key(k).map_err(cp)?;
                Ok((
                    kp.public().serialize().to_vec(),
                    kp.private().serialize().to_vec(),
                ))
            }
            fn sk_public_key(&self, sk: &[u8]) -> Result<Vec<u8>, IErr> {
                let k = <PrivateKey<$ke> as SecretKey<$ke>>::deserialize(sk).map_err(ci)?;
                k.public_key().map(|p| p.serialize().to_vec()).map_err(ci)
            }
            fn kg_public_key(&self, sk: &[u8]) -> Result<Vec<u8>, IErr> {
                let k = <$ke as KeGroup>::deserialize_sk(sk).map_err(ci)?;
                Ok(<$ke as KeGroup>::serialize_pk(<$ke as KeGroup>::public_key(k)).to_vec())
            }
            fn sk_diffie_hellman(&self, sk: &[u8], pk: &[u8]) -> Result<Vec<u8>, IErr> {
                let k = <PrivateKey<$ke> as SecretKey<$ke>>::deserialize(sk).map_err(ci)?;
                let p = PublicKey::<$ke>::deserialize(pk).map_err(ci)?;
                k.diffie_hellman(p).map(|d| d.to_vec()).map_err(ci)
            }
            fn kg_diffie_hellman(&self, sk: &[u8], pk: &[u8]) -> Result<Vec<u8>, IErr> {
                let k = <$ke as KeGroup>::deserialize_sk(sk).map_err(ci)?;
                let p = <$ke as KeGroup>::deserialize_pk(pk).map_err(ci)?;
                Ok(<$ke as KeGroup>::diffie_hellman(p, k).to_vec())
            }
            fn kg_derive_auth_keypair(&self, seed: &[u8]) -> Result<Vec<u8>, IErr> {
                assert_eq!(
                    seed.len(),
                    <<$ke as KeGroup>::SkLen as Unsigned>::USIZE,
                    "HARNESS-BUG: seed length"
                );
                let seed = GenericArray::<u8, <$ke as KeGroup>::SkLen>::clone_from_slice(seed);
                <$ke as KeGroup>::derive_auth_keypair::<$oprf>(seed)
                    .map(|s| <$ke as KeGroup>::serialize_sk(s).to_vec())
                    .map_err(ci)
            }
            fn kg_random_sk(&self, rng: &mut TapeRng) -> Vec<u8> {
                <$ke as KeGroup>::serialize_sk(<$ke as KeGroup>::random_sk(rng)).to_vec()
            }
            fn kg_is_zero_scalar(&self, sk: &[u8]) -> Result<bool, IErr> {
                let k = <$ke as KeGroup>::deserialize_sk(sk).map_err(ci)?;
                Ok(bool::from(<$ke as KeGroup>::is_zero_scalar(k)))
            }
        }
    };
}

type R255 = opaque_ke::Ristretto255;
type X25519 = opaque_ke::Curve25519;
type P256 = p256::NistP256;
type P384 = p384::NistP384;
type P521 = p521::NistP521;

use KeKind as K;
use KsfKind as F;
use OprfKind as O;

suite!(SR255R255, "ristretto255/ristretto255", R255, R255, DynKsf, O::Ristretto255, K::Ristretto255, F::Dyn);
suite!(SR255X25519, "ristretto255/curve25519", R255, X25519, DynKsf, O::Ristretto255, K::Curve25519, F::Dyn);
suite!(SR255P256, "ristretto255/p256", R255, P256, DynKsf, O::Ristretto255, K::P256, F::Dyn);
suite!(SR255P384, "ristretto255/p384", R255, P384, DynKsf, O::Ristretto255, K::P384, F::Dyn);
suite!(SR255P521, "ristretto255/p521", R255, P521, DynKsf, O::Ristretto255, K::P521, F::Dyn);

suite!(SP256R255, "p256/ristretto255", P256, R255, DynKsf, O::P256, K::Ristretto255, F::Dyn);
suite!(SP256X25519, "p256/curve25519", P256, X25519, DynKsf, O::P256, K::Curve25519, F::Dyn);
suite!(SP256P256, "p256/p256", P256, P256, DynKsf, O::P256, K::P256, F::Dyn);
suite!(SP256P384, "p256/p384", P256, P384, DynKsf, O::P256, K::P384, F::Dyn);
suite!(SP256P521, "p256/p521", P256, P521, DynKsf, O::P256, K::P521, F::Dyn);

suite!(SP384R255, "p384/ristretto255", P384, R255, DynKsf, O::P384, K::Ristretto255, F::Dyn);
suite!(SP384X25519, "p384/curve25519", P384, X25519, DynKsf, O::P384, K::Curve25519, F::Dyn);
suite!(SP384P256, "p384/p256", P384, P256, DynKsf, O::P384, K::P256, F::Dyn);
suite!(SP384P384, "p384/p384", P384, P384, DynKsf, O::P384, K::P384, F::Dyn);
suite!(SP384P521, "p384/p521", P384, P521, DynKsf, O::P384, K::P521, F::Dyn);

suite!(SP521R255, "p521/ristretto255", P521, R255, DynKsf, O::P521, K::Ristretto255, F::Dyn);
suite!(SP521X25519, "p521/curve25519", P521, X25519, DynKsf, O::P521, K::Curve25519, F::Dyn);
suite!(SP521P256, "p521/p256", P521, P256, DynKsf, O::P521, K::P256, F::Dyn);
suite!(SP521P384, "p521/p384", P521, P384, DynKsf, O::P521, K::P384, F::Dyn);
suite!(SP521P521, "p521/p521", P521, P521, DynKsf, O::P521, K::P521, F::Dyn);

// the crate's real KSF types
suite!(RIdR255, "real-identity:ristretto255/ristretto255", R255, R255, opaque_ke::ksf::Identity, O::Ristretto255, K::Ristretto255, F::RealIdentity);
suite!(RIdP256, "real-identity:p256/p256", P256, P256, opaque_ke::ksf::Identity, O::P256, K::P256, F::RealIdentity);
suite!(RArR255, "real-argon2:ristretto255/ristretto255", R255, R255, argon2::Argon2<'static>, O::Ristretto255, K::Ristretto255, F::RealArgon2);
suite!(RArP256, "real-argon2:p256/p256", P256, P256, argon2::Argon2<'static>, O::P256, K::P256, F::RealArgon2);

suite!(ZstR255, "zst-ksf:ristretto255/ristretto255", R255, R255, crate::ksf::ZstKsf, O::Ristretto255, K::Ristretto255, F::Zst);
suite!(ZstP256, "zst-ksf:p256/p256", P256, P256, crate::ksf::ZstKsf, O::P256, K::P256, F::Zst);

/// the 20 (OPRF, KE) combinations, all with `DynKsf`
pub fn suites20() -> Vec<&'static dyn Proto> {
    vec![
        &SR255R255, &SR255X25519, &SR255P256, &SR255P384, &SR255P521,
        &SP256R255, &SP256X25519, &SP256P256, &SP256P384, &SP256P521,
        &SP384R255, &SP384X25519, &SP384P256, &SP384P384, &SP384P521,
        &SP521R255, &SP521X25519, &SP521P256, &SP521P384, &SP521P521,
    ]
}

/// the four suites using `ksf::Identity` / `argon2::Argon2` directly
pub fn real_ksf_suites() -> Vec<&'static dyn Proto> {
    vec![&RIdR255, &RIdP256, &RArR255, &RArP256, &ZstR255, &ZstP256]
}

pub fn all_suites() -> Vec<&'static dyn Proto> {
    let mut v = suites20();
    v.extend(real_ksf_suites());
    v
}

pub fn by_name(name: &str) -> Option<&'static dyn Proto> {
    all_suites().into_iter().find(|s| s.meta().name == name)
}

//! Independent reference model of RFC 9807 (OPAQUE-3DH) written from the RFC
//! text.  Shares no code with `/repo/src`.
//!
//! * own HMAC, HKDF-Extract/Expand, Expand-Label/Derive-Secret, I2OSP and
//!   `expand_message_xmd` (RFC 9380 §5.3.1) on top of `sha2`;
//! * own `HashToScalar`/`DeriveKeyPair` (RFC 9497 §3.2.1, §4) via
//!   `expand_message_xmd` + the curve crates' wide reductions;
//! * OPRF blind / evaluate / finalize through the `voprf` crate's public API with
//!   `voprf::Ristretto255` and the NIST curve types (never through
//!   `opaque_ke::Ristretto255`);
//! * group arithmetic through the curve crates directly.
//!
//! Pinned on every run against RFC 9807 Appendix C, RFC 9497 Appendix A (OPRF
//! mode) and RFC 7748 vectors (`selftest`).

use curve25519_dalek::montgomery::MontgomeryPoint;
use curve25519_dalek::ristretto::{CompressedRistretto, RistrettoPoint};
use curve25519_dalek::scalar::Scalar as DScalar;
use elliptic_curve::group::GroupEncoding;
use elliptic_curve::hash2curve::FromOkm;
use elliptic_curve::sec1::{FromEncodedPoint, ToEncodedPoint};
use elliptic_curve::PrimeField;
use generic_array::GenericArray;
use sha2::{Digest, Sha256, Sha384, Sha512};

use crate::proto::{KeKind, Meta, OprfKind};

// ---------------------------------------------------------------- hashing

#[derive(Clone, Copy, Debug, PartialEq, Eq)]
pub enum HashAlg {
    Sha256,
    Sha384,
    Sha512,
}

impl HashAlg {
    pub fn out_len(self) -> usize {
        match self {
            HashAlg::Sha256 => 32,
            HashAlg::Sha384 => 48,
            HashAlg::Sha512 => 64,
        }
    }
    pub fn block_len(self) -> usize {
        match self {
            HashAlg::Sha256 => 64,
            _ => 128,
        }
    }
}

pub fn hash(alg: HashAlg, parts: &[&[u8]]) -> Vec<u8> {
    match alg {
        HashAlg::Sha256 => {
            let mut h = Sha256::new();
            for p in parts {
                h.update(p);
            }
            h.finalize().to_vec()
        }
        HashAlg::Sha384 => {
            let mut h = Sha384::new();
            for p in parts {
                h.update(p);
            }
            h.finalize().to_vec()
        }
        HashAlg::Sha512 => {
            let mut h = Sha512::new();
            for p in parts {
                h.update(p);
            }
            h.finalize().to_vec()
        }
    }
}

/// HMAC (RFC 2104), written out.
pub fn hmac(alg: HashAlg, key: &[u8], parts: &[&[u8]]) -> Vec<u8> {
    let b = alg.block_len();
    let mut k = if key.len() > b {
        hash(alg, &[key])
    } else {
        key.to_vec()
    };
    k.resize(b, 0);
    let ipad: Vec<u8> = k.iter().map(|x| x ^ 0x36).collect();
    let opad: Vec<u8> = k.iter().map(|x| x ^ 0x5c).collect();
    let mut inner_parts: Vec<&[u8]> = vec![&ipad];
    inner_parts.extend_from_slice(parts);
    let inner = hash(alg, &inner_parts);
    hash(alg, &[&opad, &inner])
}

/// HKDF-Extract (RFC 5869); empty salt = HashLen zeros
pub fn hkdf_extract(alg: HashAlg, salt: &[u8], ikm_parts: &[&[u8]]) -> Vec<u8> {
    let zeros = vec![0u8; alg.out_len()];
    let salt = if salt.is_empty() { &zeros[..] } else { salt };
    hmac(alg, salt, ikm_parts)
}

/// HKDF-Expand (RFC 5869)
pub fn hkdf_expand(alg: HashAlg, prk: &[u8], info: &[u8], len: usize) -> Vec<u8> {
    let mut okm = Vec::with_capacity(len);
    let mut t: Vec<u8> = Vec::new();
    let mut ctr = 1u8;
    while okm.len() < len {
        t = hmac(alg, prk, &[&t, info, &[ctr]]);
        okm.extend_from_slice(&t);
        ctr = ctr.checked_add(1).expect("HARNESS-BUG: hkdf_expand length");
    }
    okm.truncate(len);
    okm
}

pub fn i2osp(x: usize, n: usize) -> Vec<u8> {
    let mut v = vec![0u8; n];
    let mut x = x;
    for i in (0..n).rev() {
        v[i] = (x & 0xff) as u8;
        x >>= 8;
    }
    assert_eq!(x, 0, "HARNESS-BUG: I2OSP overflow");
    v
}

fn len2(b: &[u8]) -> Vec<u8> {
    i2osp(b.len(), 2)
}

/// expand_message_xmd, RFC 9380 §5.3.1
pub fn expand_message_xmd(alg: HashAlg, msg: &[u8], dst: &[u8], len: usize) -> Vec<u8> {
    let b_in_bytes = alg.out_len();
    let s_in_bytes = alg.block_len();
    let ell = len.div_ceil(b_in_bytes);
    assert!(ell <= 255 && len <= 65535 && dst.len() <= 255, "HARNESS-BUG: xmd parameters");
    let mut dst_prime = dst.to_vec();
    dst_prime.push(dst.len() as u8);
    let z_pad = vec![0u8; s_in_bytes];
    let l_i_b_str = i2osp(len, 2);
    let b0 = hash(alg, &[&z_pad, msg, &l_i_b_str, &[0u8], &dst_prime]);
    let mut bi = hash(alg, &[&b0, &[1u8], &dst_prime]);
    let mut uniform = bi.clone();
    for i in 2..=ell {
        let x: Vec<u8> = b0.iter().zip(bi.iter()).map(|(a, b)| a ^ b).collect();
        bi = hash(alg, &[&x, &[i as u8], &dst_prime]);
        uniform.extend_from_slice(&bi);
    }
    uniform.truncate(len);
    uniform
}

// ---------------------------------------------------------------- groups

pub fn oprf_hash(o: OprfKind) -> HashAlg {
    match o {
        OprfKind::Ristretto255 | OprfKind::P521 => HashAlg::Sha512,
        OprfKind::P256 => HashAlg::Sha256,
        OprfKind::P384 => HashAlg::Sha384,
    }
}

pub fn oprf_id(o: OprfKind) -> &'static str {
    match o {
        OprfKind::Ristretto255 => "ristretto255-SHA512",
        OprfKind::P256 => "P256-SHA256",
        OprfKind::P384 => "P384-SHA384",
        OprfKind::P521 => "P521-SHA512",
    }
}

/// contextString = "OPRFV1-" || I2OSP(mode=0, 1) || "-" || identifier
pub fn context_string(o: OprfKind) -> Vec<u8> {
    let mut v = b"OPRFV1-".to_vec();
    v.push(0);
    v.push(b'-');
    v.extend_from_slice(oprf_id(o).as_bytes());
    v
}

/// A prime-order group used either as OPRF group or as KE group.
#[derive(Clone, Copy, Debug, PartialEq, Eq)]
pub enum Grp {
    Ristretto255,
    P256,
    P384,
    P521,
}

pub fn grp_of_oprf(o: OprfKind) -> Grp {
    match o {
        OprfKind::Ristretto255 => Grp::Ristretto255,
        OprfKind::P256 => Grp::P256,
        OprfKind::P384 => Grp::P384,
        OprfKind::P521 => Grp::P521,
    }
}

pub fn grp_of_ke(k: KeKind) -> Option<Grp> {
    match k {
        KeKind::Ristretto255 => Some(Grp::Ristretto255),
        KeKind::P256 => Some(Grp::P256),
        KeKind::P384 => Some(Grp::P384),
        KeKind::P521 => Some(Grp::P521),
        KeKind::Curve25519 => None,
    }
}

macro_rules! nist_ops {
    ($modname:ident, $krate:ident, $okm_len:expr) => {
        mod $modname {
            use super::*;
            use $krate::{AffinePoint, EncodedPoint, FieldBytes, ProjectivePoint, Scalar};

            pub fn scalar_from_bytes(b: &[u8]) -> Option<Scalar> {
                if b.len() != FieldBytes::default().len() {
                    return None;
                }
                Option::from(Scalar::from_repr(FieldBytes::clone_from_slice(b)))
            }
            pub fn scalar_to_bytes(s: &Scalar) -> Vec<u8> {
                s.to_repr().to_vec()
            }
            pub fn point_from_bytes(b: &[u8]) -> Option<ProjectivePoint> {
                let ep = EncodedPoint::from_bytes(b).ok()?;
                if !ep.is_compressed() {
                    return None;
                }
                let a: Option<AffinePoint> = Option::from(AffinePoint::from_encoded_point(&ep));
                a.map(ProjectivePoint::from)
            }
            pub fn point_to_bytes(p: &ProjectivePoint) -> Vec<u8> {
                p.to_affine().to_encoded_point(true).as_bytes().to_vec()
            }
            pub fn base_mul(s: &[u8]) -> Option<Vec<u8>> {
                let s = scalar_from_bytes(s)?;
                Some(point_to_bytes(&(ProjectivePoint::GENERATOR * s)))
            }
            pub fn mul(s: &[u8], p: &[u8]) -> Option<Vec<u8>> {
                let s = scalar_from_bytes(s)?;
                let p = point_from_bytes(p)?;
                Some(point_to_bytes(&(p * s)))
            }
            pub fn invert(s: &[u8]) -> Option<Vec<u8>> {
                let s = scalar_from_bytes(s)?;
                let inv: Option<Scalar> = Option::from(s.invert());
                inv.map(|i| scalar_to_bytes(&i))
            }
            /// HashToScalar: expand_message_xmd to L bytes, reduce mod n
            pub fn hash_to_scalar(alg: HashAlg, msg: &[u8], dst: &[u8]) -> Vec<u8> {
                let okm = expand_message_xmd(alg, msg, dst, $okm_len);
                let s = <Scalar as FromOkm>::from_okm(GenericArray::from_slice(&okm));
                scalar_to_bytes(&s)
            }
            #[allow(dead_code)]
            pub fn to_bytes_generic(p: &ProjectivePoint) -> Vec<u8> {
                p.to_bytes().to_vec()
            }
        }
    };
}

nist_ops!(n256, p256, 48);
nist_ops!(n384, p384, 72);
nist_ops!(n521, p521, 98);

mod r255 {
    use super::*;
    pub fn scalar_from_bytes(b: &[u8]) -> Option<DScalar> {
        let a: [u8; 32] = b.try_into().ok()?;
        Option::from(DScalar::from_canonical_bytes(a))
    }
    pub fn point_from_bytes(b: &[u8]) -> Option<RistrettoPoint> {
        CompressedRistretto::from_slice(b).ok()?.decompress()
    }
    pub fn base_mul(s: &[u8]) -> Option<Vec<u8>> {
        let s = scalar_from_bytes(s)?;
        Some(
            (curve25519_dalek::constants::RISTRETTO_BASEPOINT_POINT * s)
                .compress()
                .to_bytes()
                .to_vec(),
        )
    }
    pub fn mul(s: &[u8], p: &[u8]) -> Option<Vec<u8>> {
        let s = scalar_from_bytes(s)?;
        let p = point_from_bytes(p)?;
        Some((p * s).compress().to_bytes().to_vec())
    }
    pub fn invert(s: &[u8]) -> Option<Vec<u8>> {
        let s = scalar_from_bytes(s)?;
        if s == DScalar::ZERO {
            return None;
        }
        Some(s.invert().to_bytes().to_vec())
    }
    pub fn hash_to_scalar(alg: HashAlg, msg: &[u8], dst: &[u8]) -> Vec<u8> {
        let okm = expand_message_xmd(alg, msg, dst, 64);
        let mut w = [0u8; 64];
        w.copy_from_slice(&okm);
        DScalar::from_bytes_mod_order_wide(&w).to_bytes().to_vec()
    }
}

impl Grp {
    pub fn scalar_len(self) -> usize {
        match self {
            Grp::Ristretto255 | Grp::P256 => 32,
            Grp::P384 => 48,
            Grp::P521 => 66,
        }
    }
    pub fn elem_len(self) -> usize {
        match self {
            Grp::Ristretto255 => 32,
            Grp::P256 => 33,
            Grp::P384 => 49,
            Grp::P521 => 67,
        }
    }
    /// scalar * G, serialized; None if the scalar encoding is invalid
    pub fn base_mul(self, s: &[u8]) -> Option<Vec<u8>> {
        match self {
            Grp::Ristretto255 => r255::base_mul(s),
            Grp::P256 => n256::base_mul(s),
            Grp::P384 => n384::base_mul(s),
            Grp::P521 => n521::base_mul(s),
        }
    }
    /// scalar * P, serialized
    pub fn mul(self, s: &[u8], p: &[u8]) -> Option<Vec<u8>> {
        match self {
            Grp::Ristretto255 => r255::mul(s, p),
            Grp::P256 => n256::mul(s, p),
            Grp::P384 => n384::mul(s, p),
            Grp::P521 => n521::mul(s, p),
        }
    }
    pub fn invert(self, s: &[u8]) -> Option<Vec<u8>> {
        match self {
            Grp::Ristretto255 => r255::invert(s),
            Grp::P256 => n256::invert(s),
            Grp::P384 => n384::invert(s),
            Grp::P521 => n521::invert(s),
        }
    }
    pub fn hash_to_scalar(self, alg: HashAlg, msg: &[u8], dst: &[u8]) -> Vec<u8> {
        match self {
            Grp::Ristretto255 => r255::hash_to_scalar(alg, msg, dst),
            Grp::P256 => n256::hash_to_scalar(alg, msg, dst),
            Grp::P384 => n384::hash_to_scalar(alg, msg, dst),
            Grp::P521 => n521::hash_to_scalar(alg, msg, dst),
        }
    }
    /// is `b` a valid, canonical, non-identity element encoding?
    pub fn valid_elem(self, b: &[u8]) -> bool {
        if b.len() != self.elem_len() {
            return false;
        }
        match self {
            Grp::Ristretto255 => match r255::point_from_bytes(b) {
                Some(p) => {
                    p.compress().to_bytes()[..] == *b
                        && p != <RistrettoPoint as curve25519_dalek::traits::Identity>::identity()
                }
                None => false,
            },
            Grp::P256 => n256::point_from_bytes(b).map(|p| n256::point_to_bytes(&p) == b).unwrap_or(false),
            Grp::P384 => n384::point_from_bytes(b).map(|p| n384::point_to_bytes(&p) == b).unwrap_or(false),
            Grp::P521 => n521::point_from_bytes(b).map(|p| n521::point_to_bytes(&p) == b).unwrap_or(false),
        }
    }
    /// is `b` a canonical non-zero scalar encoding?
    pub fn valid_scalar(self, b: &[u8]) -> bool {
        if b.len() != self.scalar_len() || b.iter().all(|x| *x == 0) {
            return false;
        }
        match self {
            Grp::Ristretto255 => r255::scalar_from_bytes(b).is_some(),
            Grp::P256 => n256::scalar_from_bytes(b).is_some(),
            Grp::P384 => n384::scalar_from_bytes(b).is_some(),
            Grp::P521 => n521::scalar_from_bytes(b).is_some(),
        }
    }
    /// group order, big-endian for NIST / little-endian for ristretto (i.e. in
    /// the byte order of the scalar encoding)
    pub fn order_bytes(self) -> Vec<u8> {
        match self {
            Grp::Ristretto255 => {
                hex::decode("edd3f55c1a631258d69cf7a2def9de1400000000000000000000000000000010").unwrap()
            }
            Grp::P256 => {
                hex::decode("ffffffff00000000ffffffffffffffffbce6faada7179e84f3b9cac2fc632551").unwrap()
            }
            Grp::P384 => hex::decode(
                "ffffffffffffffffffffffffffffffffffffffffffffffffc7634d81f4372ddf581a0db248b0a77aecec196accc52973",
            )
            .unwrap(),
            Grp::P521 => hex::decode(
                "01fffffffffffffffffffffffffffffffffffffffffffffffffffffffffffffffffa51868783bf2f966b7fcc0148f709a5d03bb5c9b8899c47aebb6fb71e91386409",
            )
            .unwrap(),
        }
    }
    /// field prime p in the byte order of the element encoding's coordinate
    pub fn field_prime_bytes(self) -> Vec<u8> {
        match self {
            Grp::Ristretto255 => {
                // 2^255-19 little endian
                let mut v = vec![0xffu8; 32];
                v[0] = 0xed;
                v[31] = 0x7f;
                v
            }
            Grp::P256 => {
                hex::decode("ffffffff00000001000000000000000000000000ffffffffffffffffffffffff").unwrap()
            }
            Grp::P384 => hex::decode(
                "fffffffffffffffffffffffffffffffffffffffffffffffffffffffffffffffeffffffff0000000000000000ffffffff",
            )
            .unwrap(),
            Grp::P521 => {
                let mut v = vec![0xffu8; 66];
                v[0] = 0x01;
                v
            }
        }
    }
    pub fn little_endian(self) -> bool {
        matches!(self, Grp::Ristretto255)
    }
}

// ---------------------------------------------------------------- X25519

pub fn clamp(mut k: [u8; 32]) -> [u8; 32] {
    k[0] &= 248;
    k[31] &= 127;
    k[31] |= 64;
    k
}

/// X25519(k, u) per RFC 7748 (k is clamped by the function)
pub fn x25519(k: &[u8], u: &[u8]) -> Option<Vec<u8>> {
    let k: [u8; 32] = k.try_into().ok()?;
    let u: [u8; 32] = u.try_into().ok()?;
    Some(MontgomeryPoint(u).mul_clamped(k).to_bytes().to_vec())
}

pub fn x25519_base(k: &[u8]) -> Option<Vec<u8>> {
    let mut nine = [0u8; 32];
    nine[0] = 9;
    x25519(k, &nine)
}

/// the u-coordinates of the points of order dividing 8, mod p
pub fn x25519_small_order_residues() -> Vec<[u8; 32]> {
    let mut v = Vec::new();
    let mut zero = [0u8; 32];
    v.push(zero);
    zero[0] = 1;
    v.push(zero); // 1
    let mut pm1 = [0xffu8; 32];
    pm1[0] = 0xec;
    pm1[31] = 0x7f;
    v.push(pm1); // p-1
    let mut a = [0u8; 32];
    hex::decode_to_slice("e0eb7a7c3b41b8ae1656e3faf19fc46ada098deb9c32b1fd866205165f49b800", &mut a).unwrap();
    v.push(a);
    let mut b = [0u8; 32];
    hex::decode_to_slice("5f9c95bca3508c24b1d0b1559c83ef5b04445cc4581c8e86d8224eddd09f1157", &mut b).unwrap();
    v.push(b);
    v
}

/// reduce a 32-byte little-endian u (bit 255 masked as RFC 7748 requires) mod p
pub fn x25519_reduce_u(u: &[u8; 32]) -> [u8; 32] {
    let mut x = *u;
    x[31] &= 0x7f;
    // p = 2^255-19; values in [p, 2^255) map to x - p in [0, 19)
    let mut p = [0xffu8; 32];
    p[0] = 0xed;
    p[31] = 0x7f;
    let ge = {
        let mut ge = true;
        for i in (0..32).rev() {
            if x[i] != p[i] {
                ge = x[i] > p[i];
                break;
            }
        }
        ge
    };
    if ge {
        let mut borrow = 0i16;
        for i in 0..32 {
            let d = x[i] as i16 - p[i] as i16 - borrow;
            if d < 0 {
                x[i] = (d + 256) as u8;
                borrow = 1;
            } else {
                x[i] = d as u8;
                borrow = 0;
            }
        }
    }
    x
}

/// independent validity predicate for a Curve25519 public key as the property
/// states it: not the identity and not of small order
pub fn x25519_valid_pk(b: &[u8]) -> bool {
    let Ok(u) = <[u8; 32]>::try_from(b) else {
        return false;
    };
    let r = x25519_reduce_u(&u);
    !x25519_small_order_residues().iter().any(|s| *s == r)
}

// ---------------------------------------------------------------- KE group (incl. Curve25519)

pub fn ke_public_key(k: KeKind, sk: &[u8]) -> Option<Vec<u8>> {
    match grp_of_ke(k) {
        Some(g) => g.base_mul(sk),
        None => x25519_base(sk),
    }
}

pub fn ke_dh(k: KeKind, sk: &[u8], pk: &[u8]) -> Option<Vec<u8>> {
    match grp_of_ke(k) {
        Some(g) => g.mul(sk, pk),
        None => x25519(sk, pk),
    }
}

/// RFC 9497 §3.2.1 DeriveKeyPair (returns the private scalar), in group `g`,
/// with hash and context string of OPRF suite `o`
pub fn derive_key_pair(g: Grp, o: OprfKind, seed: &[u8], info: &[u8]) -> Option<Vec<u8>> {
    let alg = oprf_hash(o);
    let mut dst = b"DeriveKeyPair".to_vec();
    dst.extend_from_slice(&context_string(o));
    let mut derive_input = seed.to_vec();
    derive_input.extend_from_slice(&len2(info));
    derive_input.extend_from_slice(info);
    for counter in 0..=255u8 {
        let mut msg = derive_input.clone();
        msg.push(counter);
        let sk = g.hash_to_scalar(alg, &msg, &dst);
        if !sk.iter().all(|b| *b == 0) {
            return Some(sk);
        }
    }
    None
}

/// RFC 9807 DeriveDiffieHellmanKeyPair(seed) -> (sk, pk)
pub fn derive_dh_key_pair(k: KeKind, o: OprfKind, seed: &[u8]) -> Option<(Vec<u8>, Vec<u8>)> {
    match grp_of_ke(k) {
        Some(g) => {
            let sk = derive_key_pair(g, o, seed, b"OPAQUE-DeriveDiffieHellmanKeyPair")?;
            let pk = g.base_mul(&sk)?;
            Some((sk, pk))
        }
        None => {
            // RFC 9807 §6.1 curve25519: skS = clamp(seed) (RFC 7748 §5), pk = X25519(sk, 9)
            let s: [u8; 32] = seed.try_into().ok()?;
            let sk = clamp(s).to_vec();
            let pk = x25519_base(&sk)?;
            Some((sk, pk))
        }
    }
}

// ---------------------------------------------------------------- OPRF through voprf's public API

macro_rules! with_oprf {
    ($o:expr, $T:ident => $body:expr) => {
        match $o {
            OprfKind::Ristretto255 => {
                type $T = voprf::Ristretto255;
                $body
            }
            OprfKind::P256 => {
                type $T = p256::NistP256;
                $body
            }
            OprfKind::P384 => {
                type $T = p384::NistP384;
                $body
            }
            OprfKind::P521 => {
                type $T = p521::NistP521;
                $body
            }
        }
    };
}

/// Blind(input, blind) -> blinded element
pub fn oprf_blind(o: OprfKind, input: &[u8], blind: &[u8]) -> Option<Vec<u8>> {
    with_oprf!(o, T => {
        let sc = <<T as voprf::CipherSuite>::Group as voprf::Group>::deserialize_scalar(blind).ok()?;
        let r = voprf::OprfClient::<T>::deterministic_blind_unchecked(input, sc).ok()?;
        Some(r.message.serialize().to_vec())
    })
}

/// BlindEvaluate(skS, blinded) -> evaluated element
pub fn oprf_evaluate(o: OprfKind, key: &[u8], blinded: &[u8]) -> Option<Vec<u8>> {
    with_oprf!(o, T => {
        let srv = voprf::OprfServer::<T>::new_with_key(key).ok()?;
        let be = voprf::BlindedElement::<T>::deserialize(blinded).ok()?;
        Some(srv.blind_evaluate(&be).serialize().to_vec())
    })
}

/// Finalize(input, blind, evaluated) -> output
pub fn oprf_finalize(o: OprfKind, input: &[u8], blind: &[u8], evaluated: &[u8]) -> Option<Vec<u8>> {
    with_oprf!(o, T => {
        let cl = voprf::OprfClient::<T>::deserialize(blind).ok()?;
        let ee = voprf::EvaluationElement::<T>::deserialize(evaluated).ok()?;
        cl.finalize(input, &ee).ok().map(|o| o.to_vec())
    })
}

/// Finalize written from RFC 9497 §3.3.1 with our own group arithmetic
pub fn oprf_finalize_own(o: OprfKind, input: &[u8], blind: &[u8], evaluated: &[u8]) -> Option<Vec<u8>> {
    let g = grp_of_oprf(o);
    let inv = g.invert(blind)?;
    let n = g.mul(&inv, evaluated)?;
    Some(hash(
        oprf_hash(o),
        &[&len2(input), input, &len2(&n), &n, b"Finalize"],
    ))
}

// ---------------------------------------------------------------- OPAQUE

#[derive(Clone, Debug)]
pub struct Suite {
    pub oprf: OprfKind,
    pub ke: KeKind,
    pub alg: HashAlg,
    pub nh: usize,
    pub npk: usize,
    pub nsk: usize,
    pub noe: usize,
    pub nok: usize,
}

impl Suite {
    pub fn of(m: &Meta) -> Self {
        Suite {
            oprf: m.oprf,
            ke: m.ke,
            alg: oprf_hash(m.oprf),
            nh: m.nh,
            npk: m.npk,
            nsk: m.nsk,
            noe: m.noe,
            nok: m.nok,
        }
    }
    pub fn new(oprf: OprfKind, ke: KeKind) -> Self {
        let alg = oprf_hash(oprf);
        let (npk, nsk) = match ke {
            KeKind::Ristretto255 | KeKind::Curve25519 => (32, 32),
            KeKind::P256 => (33, 32),
            KeKind::P384 => (49, 48),
            KeKind::P521 => (67, 66),
        };
        let g = grp_of_oprf(oprf);
        Suite {
            oprf,
            ke,
            alg,
            nh: alg.out_len(),
            npk,
            nsk,
            noe: g.elem_len(),
            nok: g.scalar_len(),
        }
    }

    /// oprf_key = DeriveKeyPair(Expand(oprf_seed, cred_id || "OprfKey", Nok), "OPAQUE-DeriveKeyPair")
    pub fn oprf_key(&self, oprf_seed: &[u8], cred_id: &[u8]) -> Option<Vec<u8>> {
        let mut info = cred_id.to_vec();
        info.extend_from_slice(b"OprfKey");
        let seed = hkdf_expand(self.alg, oprf_seed, &info, self.nok);
        derive_key_pair(grp_of_oprf(self.oprf), self.oprf, &seed, b"OPAQUE-DeriveKeyPair")
    }

    /// randomized_pwd = Extract("", oprf_output || Stretch(oprf_output))
    pub fn randomized_pwd(&self, oprf_output: &[u8], stretched: &[u8]) -> Vec<u8> {
        hkdf_extract(self.alg, b"", &[oprf_output, stretched])
    }

    pub fn masking_key(&self, rwd: &[u8]) -> Vec<u8> {
        hkdf_expand(self.alg, rwd, b"MaskingKey", self.nh)
    }

    pub fn envelope(
        &self,
        rwd: &[u8],
        nonce: &[u8],
        server_pk: &[u8],
        id_u: Option<&[u8]>,
        id_s: Option<&[u8]>,
    ) -> Option<EnvelopeOut> {
        let cat = |label: &[u8]| {
            let mut v = nonce.to_vec();
            v.extend_from_slice(label);
            v
        };
        let auth_key = hkdf_expand(self.alg, rwd, &cat(b"AuthKey"), self.nh);
        let export_key = hkdf_expand(self.alg, rwd, &cat(b"ExportKey"), self.nh);
        // Nseed := Nsk of the KE group (the property's "suite's own lengths")
        let seed = hkdf_expand(self.alg, rwd, &cat(b"PrivateKey"), self.nsk);
        let (client_sk, client_pk) = derive_dh_key_pair(self.ke, self.oprf, &seed)?;
        let id_s = id_s.unwrap_or(server_pk);
        let id_u = id_u.unwrap_or(&client_pk);
        let auth_tag = hmac(
            self.alg,
            &auth_key,
            &[nonce, server_pk, &len2(id_s), id_s, &len2(id_u), id_u],
        );
        Some(EnvelopeOut {
            auth_key,
            export_key,
            client_sk,
            client_pk,
            auth_tag,
        })
    }

    /// masked_response = Expand(masking_key, masking_nonce||"CredentialResponsePad", Npk+Nn+Nm) XOR (server_pk || envelope)
    pub fn masked_response(&self, masking_key: &[u8], masking_nonce: &[u8], server_pk: &[u8], envelope: &[u8]) -> Vec<u8> {
        let mut info = masking_nonce.to_vec();
        info.extend_from_slice(b"CredentialResponsePad");
        let pad = hkdf_expand(self.alg, masking_key, &info, self.npk + 32 + self.nh);
        let mut plain = server_pk.to_vec();
        plain.extend_from_slice(envelope);
        assert_eq!(plain.len(), pad.len(), "HARNESS-BUG: masked response length");
        pad.iter().zip(plain.iter()).map(|(a, b)| a ^ b).collect()
    }

    fn expand_label(&self, secret: &[u8], label: &[u8], context: &[u8], len: usize) -> Vec<u8> {
        let mut full = b"OPAQUE-".to_vec();
        full.extend_from_slice(label);
        let mut custom = i2osp(len, 2);
        custom.extend_from_slice(&i2osp(full.len(), 1));
        custom.extend_from_slice(&full);
        custom.extend_from_slice(&i2osp(context.len(), 1));
        custom.extend_from_slice(context);
        hkdf_expand(self.alg, secret, &custom, len)
    }

    fn derive_secret(&self, secret: &[u8], label: &[u8], transcript_hash: &[u8]) -> Vec<u8> {
        self.expand_label(secret, label, transcript_hash, self.nh)
    }

    /// preamble of RFC 9807 §6.4.2.1
    #[allow(clippy::too_many_arguments)]
    pub fn preamble(
        &self,
        ctx: &[u8],
        id_u: &[u8],
        ke1: &[u8],
        id_s: &[u8],
        credential_response: &[u8],
        server_nonce: &[u8],
        server_keyshare: &[u8],
    ) -> Vec<u8> {
        let mut p = b"OPAQUEv1-".to_vec();
        p.extend_from_slice(&len2(ctx));
        p.extend_from_slice(ctx);
        p.extend_from_slice(&len2(id_u));
        p.extend_from_slice(id_u);
        p.extend_from_slice(ke1);
        p.extend_from_slice(&len2(id_s));
        p.extend_from_slice(id_s);
        p.extend_from_slice(credential_response);
        p.extend_from_slice(server_nonce);
        p.extend_from_slice(server_keyshare);
        p
    }

    /// key schedule: returns (session_key, server_mac, client_mac, km3, hashed_transcript_with_mac)
    pub fn key_schedule(&self, ikm: &[u8], preamble: &[u8]) -> KeySchedule {
        let prk = hkdf_extract(self.alg, b"", &[ikm]);
        let th = hash(self.alg, &[preamble]);
        let handshake_secret = self.derive_secret(&prk, b"HandshakeSecret", &th);
        let session_key = self.derive_secret(&prk, b"SessionKey", &th);
        let km2 = self.derive_secret(&handshake_secret, b"ServerMAC", b"");
        let km3 = self.derive_secret(&handshake_secret, b"ClientMAC", b"");
        let server_mac = hmac(self.alg, &km2, &[&th]);
        let th2 = hash(self.alg, &[preamble, &server_mac]);
        let client_mac = hmac(self.alg, &km3, &[&th2]);
        KeySchedule {
            handshake_secret,
            session_key,
            km2,
            km3,
            server_mac,
            client_mac,
            hashed_transcript: th2,
        }
    }
}

#[derive(Clone, Debug)]
pub struct EnvelopeOut {
    pub auth_key: Vec<u8>,
    pub export_key: Vec<u8>,
    pub client_sk: Vec<u8>,
    pub client_pk: Vec<u8>,
    pub auth_tag: Vec<u8>,
}

#[derive(Clone, Debug)]
pub struct KeySchedule {
    pub handshake_secret: Vec<u8>,
    pub session_key: Vec<u8>,
    pub km2: Vec<u8>,
    pub km3: Vec<u8>,
    pub server_mac: Vec<u8>,
    pub client_mac: Vec<u8>,
    pub hashed_transcript: Vec<u8>,
}

/// Inputs of a full registration as the RFC vectors give them.
#[derive(Clone, Debug, Default)]
pub struct RegInputs {
    pub oprf_seed: Vec<u8>,
    pub cred_id: Vec<u8>,
    pub password: Vec<u8>,
    pub blind: Vec<u8>,
    pub envelope_nonce: Vec<u8>,
    pub server_pk: Vec<u8>,
    pub id_u: Option<Vec<u8>>,
    pub id_s: Option<Vec<u8>>,
}

#[derive(Clone, Debug)]
pub struct RegOutputs {
    pub request: Vec<u8>,
    pub response: Vec<u8>,
    pub oprf_output: Vec<u8>,
    pub randomized_pwd: Vec<u8>,
    pub masking_key: Vec<u8>,
    pub env: EnvelopeOut,
    pub envelope: Vec<u8>,
    pub upload: Vec<u8>,
    pub export_key: Vec<u8>,
}

/// `stretch` maps the OPRF output to Stretch(oprf_output)
pub fn registration(s: &Suite, i: &RegInputs, stretch: &dyn Fn(&[u8]) -> Vec<u8>) -> Option<RegOutputs> {
    let request = oprf_blind(s.oprf, &i.password, &i.blind)?;
    let key = s.oprf_key(&i.oprf_seed, &i.cred_id)?;
    let evaluated = oprf_evaluate(s.oprf, &key, &request)?;
    let mut response = evaluated.clone();
    response.extend_from_slice(&i.server_pk);
    let oprf_output = oprf_finalize(s.oprf, &i.password, &i.blind, &evaluated)?;
    let own = oprf_finalize_own(s.oprf, &i.password, &i.blind, &evaluated)?;
    assert_eq!(oprf_output, own, "HARNESS-BUG: reference OPRF finalize implementations disagree");
    let stretched = stretch(&oprf_output);
    let rwd = s.randomized_pwd(&oprf_output, &stretched);
    let masking_key = s.masking_key(&rwd);
    let env = s.envelope(&rwd, &i.envelope_nonce, &i.server_pk, i.id_u.as_deref(), i.id_s.as_deref())?;
    let mut envelope = i.envelope_nonce.clone();
    envelope.extend_from_slice(&env.auth_tag);
    let mut upload = env.client_pk.clone();
    upload.extend_from_slice(&masking_key);
    upload.extend_from_slice(&envelope);
    Some(RegOutputs {
        request,
        response,
        oprf_output,
        randomized_pwd: rwd,
        masking_key,
        export_key: env.export_key.clone(),
        env,
        envelope,
        upload,
    })
}

#[derive(Clone, Debug, Default)]
pub struct LoginInputs {
    pub oprf_seed: Vec<u8>,
    pub cred_id: Vec<u8>,
    pub password: Vec<u8>,
    pub blind: Vec<u8>,
    pub client_nonce: Vec<u8>,
    /// client ephemeral key pair
    pub client_e_sk: Vec<u8>,
    pub client_e_pk: Vec<u8>,
    pub server_sk: Vec<u8>,
    pub server_pk: Vec<u8>,
    /// record as stored: client_pk, masking_key, envelope
    pub rec_client_pk: Vec<u8>,
    pub rec_masking_key: Vec<u8>,
    pub rec_envelope: Vec<u8>,
    pub masking_nonce: Vec<u8>,
    pub server_nonce: Vec<u8>,
    pub server_e_sk: Vec<u8>,
    pub server_e_pk: Vec<u8>,
    pub ctx: Vec<u8>,
    pub id_u: Option<Vec<u8>>,
    pub id_s: Option<Vec<u8>>,
}

#[derive(Clone, Debug)]
pub struct LoginOutputs {
    pub ke1: Vec<u8>,
    pub ke2: Vec<u8>,
    pub server_ks: KeySchedule,
    /// km3 || Hash(preamble || server_mac) || session_key
    pub server_state: Vec<u8>,
    /// client side, present when the envelope opens (password matches record)
    pub client: Option<ClientLoginOutputs>,
}

#[derive(Clone, Debug)]
pub struct ClientLoginOutputs {
    pub ke3: Vec<u8>,
    pub session_key: Vec<u8>,
    pub export_key: Vec<u8>,
    pub server_pk: Vec<u8>,
}

pub fn login(s: &Suite, i: &LoginInputs, stretch: &dyn Fn(&[u8]) -> Vec<u8>) -> Option<LoginOutputs> {
    // client: KE1
    let request = oprf_blind(s.oprf, &i.password, &i.blind)?;
    let mut ke1 = request.clone();
    ke1.extend_from_slice(&i.client_nonce);
    ke1.extend_from_slice(&i.client_e_pk);
    // server: credential response
    let key = s.oprf_key(&i.oprf_seed, &i.cred_id)?;
    let evaluated = oprf_evaluate(s.oprf, &key, &request)?;
    let masked = s.masked_response(&i.rec_masking_key, &i.masking_nonce, &i.server_pk, &i.rec_envelope);
    let mut cred_resp = evaluated.clone();
    cred_resp.extend_from_slice(&i.masking_nonce);
    cred_resp.extend_from_slice(&masked);
    // server AKE
    let id_s_eff = i.id_s.clone().unwrap_or_else(|| i.server_pk.clone());
    let id_u_eff_server = i.id_u.clone().unwrap_or_else(|| i.rec_client_pk.clone());
    let preamble = s.preamble(&i.ctx, &id_u_eff_server, &ke1, &id_s_eff, &cred_resp, &i.server_nonce, &i.server_e_pk);
    let dh1 = ke_dh(s.ke, &i.server_e_sk, &i.client_e_pk)?;
    let dh2 = ke_dh(s.ke, &i.server_sk, &i.client_e_pk)?;
    let dh3 = ke_dh(s.ke, &i.server_e_sk, &i.rec_client_pk)?;
    let mut ikm = dh1;
    ikm.extend_from_slice(&dh2);
    ikm.extend_from_slice(&dh3);
    let ks = s.key_schedule(&ikm, &preamble);
    let mut ke2 = cred_resp.clone();
    ke2.extend_from_slice(&i.server_nonce);
    ke2.extend_from_slice(&i.server_e_pk);
    ke2.extend_from_slice(&ks.server_mac);
    let mut server_state = ks.km3.clone();
    server_state.extend_from_slice(&ks.hashed_transcript);
    server_state.extend_from_slice(&ks.session_key);

    // client: recover credentials
    let client = (|| {
        let oprf_output = oprf_finalize(s.oprf, &i.password, &i.blind, &evaluated)?;
        let rwd = s.randomized_pwd(&oprf_output, &stretch(&oprf_output));
        let mk = s.masking_key(&rwd);
        // unmask
        let unmasked = s.masked_response(&mk, &i.masking_nonce, &vec![0u8; s.npk], &vec![0u8; 32 + s.nh]);
        let plain: Vec<u8> = unmasked.iter().zip(masked.iter()).map(|(a, b)| a ^ b).collect();
        let server_pk = plain[..s.npk].to_vec();
        let env_nonce = plain[s.npk..s.npk + 32].to_vec();
        let env_tag = plain[s.npk + 32..].to_vec();
        let env = s.envelope(&rwd, &env_nonce, &server_pk, i.id_u.as_deref(), i.id_s.as_deref())?;
        if env.auth_tag != env_tag {
            return None;
        }
        let id_s_c = i.id_s.clone().unwrap_or_else(|| server_pk.clone());
        let id_u_c = i.id_u.clone().unwrap_or_else(|| env.client_pk.clone());
        let pre = s.preamble(&i.ctx, &id_u_c, &ke1, &id_s_c, &cred_resp, &i.server_nonce, &i.server_e_pk);
        let d1 = ke_dh(s.ke, &i.client_e_sk, &i.server_e_pk)?;
        let d2 = ke_dh(s.ke, &i.client_e_sk, &server_pk)?;
        let d3 = ke_dh(s.ke, &env.client_sk, &i.server_e_pk)?;
        let mut ikm = d1;
        ikm.extend_from_slice(&d2);
        ikm.extend_from_slice(&d3);
        let cks = s.key_schedule(&ikm, &pre);
        if cks.server_mac != ks.server_mac {
            return None;
        }
        Some(ClientLoginOutputs {
            ke3: cks.client_mac,
            session_key: cks.session_key,
            export_key: env.export_key,
            server_pk,
        })
    })();
    Some(LoginOutputs {
        ke1,
        ke2,
        server_ks: ks,
        server_state,
        client,
    })
}

// ---------------------------------------------------------------- self-test against RFC vectors

pub mod vectors {
    use std::collections::BTreeMap;

    pub static RFC9807: &str = include_str!("../rfcdata/rfc9807_vectors.txt");
    pub static RFC9497: &str = include_str!("../rfcdata/rfc9497_vectors.txt");

    #[derive(Clone, Debug, Default)]
    pub struct OpaqueVector {
        pub title: String,
        pub fake: bool,
        pub cfg: BTreeMap<String, String>,
        pub v: BTreeMap<String, Vec<u8>>,
        raw: BTreeMap<String, String>,
    }

    impl OpaqueVector {
        pub fn get(&self, k: &str) -> Option<Vec<u8>> {
            self.v.get(k).cloned()
        }
        pub fn req(&self, k: &str) -> Vec<u8> {
            self.v
                .get(k)
                .cloned()
                .unwrap_or_else(|| panic!("HARNESS-BUG: vector {} lacks {}", self.title, k))
        }
    }

    /// parse the "formatted.txt" layout of the RFC 9807 appendix
    pub fn parse_opaque() -> Vec<OpaqueVector> {
        let mut out: Vec<OpaqueVector> = Vec::new();
        let mut cur: Option<OpaqueVector> = None;
        let mut section = String::new();
        let mut key: Option<String> = None;
        let mut in_block = false;
        for line in RFC9807.lines() {
            if let Some(t) = line.strip_prefix("### ") {
                if let Some(c) = cur.take() {
                    out.push(c);
                }
                cur = Some(OpaqueVector {
                    title: t.to_string(),
                    fake: t.contains("Fake"),
                    ..Default::default()
                });
                continue;
            }
            if let Some(t) = line.strip_prefix("#### ") {
                section = t.to_string();
                continue;
            }
            if line.starts_with("~~~") {
                in_block = !in_block;
                key = None;
                continue;
            }
            if !in_block {
                continue;
            }
            let Some(c) = cur.as_mut() else { continue };
            if section == "Configuration" {
                if let Some((k, v)) = line.split_once(": ") {
                    c.cfg.insert(k.to_string(), v.trim().to_string());
                }
                continue;
            }
            if let Some((k, v)) = line.split_once(": ") {
                key = Some(k.to_string());
                c.raw.insert(k.to_string(), v.trim().to_string());
            } else if let Some(k) = &key {
                c.raw.get_mut(k).unwrap().push_str(line.trim());
            }
        }
        if let Some(c) = cur.take() {
            out.push(c);
        }
        for c in out.iter_mut() {
            for (k, v) in &c.raw {
                c.v.insert(k.clone(), hex::decode(v).expect("HARNESS-BUG: vector hex"));
            }
        }
        out
    }

    #[derive(Clone, Debug, Default)]
    pub struct OprfVector {
        pub suite: String,
        pub seed: Vec<u8>,
        pub key_info: Vec<u8>,
        pub sk: Vec<u8>,
        pub input: Vec<u8>,
        pub blind: Vec<u8>,
        pub blinded: Vec<u8>,
        pub evaluated: Vec<u8>,
        pub output: Vec<u8>,
    }

    /// parse the OPRF-mode (mode 0) vectors of RFC 9497 Appendix A
    pub fn parse_oprf() -> Vec<OprfVector> {
        let mut out = Vec::new();
        let mut suite = String::new();
        let mut in_oprf_mode = false;
        let mut hdr: BTreeMap<String, String> = BTreeMap::new();
        let mut cur: BTreeMap<String, String> = BTreeMap::new();
        let mut key: Option<String> = None;
        let mut in_vec = false;
        let flush = |suite: &str, hdr: &BTreeMap<String, String>, cur: &mut BTreeMap<String, String>, out: &mut Vec<OprfVector>| {
            let h = |m: &BTreeMap<String, String>, k: &str| -> Vec<u8> {
                hex::decode(m.get(k).map(|s| s.as_str()).unwrap_or("")).expect("HARNESS-BUG: 9497 hex")
            };
            if cur.contains_key("Input") {
                out.push(OprfVector {
                    suite: suite.to_string(),
                    seed: h(hdr, "Seed"),
                    key_info: h(hdr, "KeyInfo"),
                    sk: h(hdr, "skSm"),
                    input: h(cur, "Input"),
                    blind: h(cur, "Blind"),
                    blinded: h(cur, "BlindedElement"),
                    evaluated: h(cur, "EvaluationElement"),
                    output: h(cur, "Output"),
                });
            }
            cur.clear();
        };
        for line in RFC9497.lines() {
            let t = line.trim();
            if t.starts_with("A.") {
                // heading
                flush(&suite, &hdr, &mut cur, &mut out);
                key = None;
                let parts: Vec<&str> = t.splitn(2, "  ").collect();
                let num = parts[0].trim_end_matches('.');
                let depth = num.split('.').count();
                let title = parts.get(1).map(|s| s.trim()).unwrap_or("");
                if depth == 2 {
                    suite = title.to_string();
                    in_oprf_mode = false;
                    hdr.clear();
                } else if depth == 3 {
                    in_oprf_mode = title == "OPRF Mode";
                    hdr.clear();
                    in_vec = false;
                } else {
                    in_vec = true;
                }
                continue;
            }
            if !in_oprf_mode || t.is_empty() {
                continue;
            }
            if let Some((k, v)) = t.split_once(" = ") {
                key = Some(k.to_string());
                let val = v.trim().to_string();
                if in_vec {
                    cur.insert(k.to_string(), val);
                } else {
                    hdr.insert(k.to_string(), val);
                }
            } else if let Some(k) = &key {
                if in_vec {
                    cur.get_mut(k).unwrap().push_str(t);
                } else {
                    hdr.get_mut(k).unwrap().push_str(t);
                }
            }
        }
        flush(&suite, &hdr, &mut cur, &mut out);
        out
    }
}

fn oprf_kind_of(name: &str) -> Option<OprfKind> {
    match name {
        "ristretto255-SHA512" => Some(OprfKind::Ristretto255),
        "P256-SHA256" => Some(OprfKind::P256),
        "P384-SHA384" => Some(OprfKind::P384),
        "P521-SHA512" => Some(OprfKind::P521),
        _ => None,
    }
}

fn ke_kind_of(name: &str) -> Option<KeKind> {
    match name {
        "ristretto255" => Some(KeKind::Ristretto255),
        "curve25519" => Some(KeKind::Curve25519),
        n if n.starts_with("P256") => Some(KeKind::P256),
        _ => None,
    }
}

macro_rules! st_eq {
    ($a:expr, $b:expr, $($arg:tt)*) => {
        if $a != $b {
            return Err(format!("reference self-test: {} (got {} want {})", format!($($arg)*), hex::encode(&$a), hex::encode(&$b)));
        }
    };
}

/// The reference must reproduce, from their inputs, all outputs of the RFC
/// vectors.  Returns the number of vectors checked.
pub fn selftest() -> Result<(), String> {
    // RFC 7748 §5.2 and §6.1
    {
        let k = hex::decode("a546e36bf0527c9d3b16154b82465edd62144c0ac1fc5a18506a2244ba449ac4").unwrap();
        let u = hex::decode("e6db6867583030db3594c1a424b15f7c726624ec26b3353b10a903a6d0ab1c4c").unwrap();
        let want = hex::decode("c3da55379de9c6908e94ea4df28d084f32eccf03491c71f754b4075577a28552").unwrap();
        st_eq!(x25519(&k, &u).unwrap(), want, "RFC 7748 5.2 vector 1");
        let k = hex::decode("4b66e9d4d1b4673c5ad22691957d6af5c11b6421e0ea01d42ca4169e7918ba0d").unwrap();
        let u = hex::decode("e5210f12786811d3f4b7959d0538ae2c31dbe7106fc03c3efc4cd549c715a493").unwrap();
        let want = hex::decode("95cbde9476e8907d7aade45cb4b873f88b595a68799fa152e6f8f7647aac7957").unwrap();
        st_eq!(x25519(&k, &u).unwrap(), want, "RFC 7748 5.2 vector 2");
        let a = hex::decode("77076d0a7318a57d3c16c17251b26645df4c2f87ebc0992ab177fba51db92c2a").unwrap();
        let apub = hex::decode("8520f0098930a754748b7ddcb43ef75a0dbf3a0d26381af4eba4a98eaa9b4e6a").unwrap();
        let b = hex::decode("5dab087e624a8a4b79e17f8b83800ee66f3bb1292618b6fd1c2f8b27ff88e0eb").unwrap();
        let bpub = hex::decode("de9edb7d7b7dc1b4d35b61c2ece435373f8343c85b78674dadfc7e146f882b4f").unwrap();
        let shared = hex::decode("4a5d9d5ba4ce2de1728e3bf480350f25e07e21c947d19e3376f09b3c1e161742").unwrap();
        st_eq!(x25519_base(&a).unwrap(), apub, "RFC 7748 6.1 alice public");
        st_eq!(x25519_base(&b).unwrap(), bpub, "RFC 7748 6.1 bob public");
        st_eq!(x25519(&a, &bpub).unwrap(), shared, "RFC 7748 6.1 shared a");
        st_eq!(x25519(&b, &apub).unwrap(), shared, "RFC 7748 6.1 shared b");
    }
    // small-order list sanity: every listed u really gives the all-zero output
    for u in x25519_small_order_residues() {
        let k = [0x42u8; 32];
        let out = x25519(&k, &u).unwrap();
        if out.iter().any(|b| *b != 0) {
            return Err(format!("reference self-test: {} is not a small-order u", hex::encode(u)));
        }
    }
    // group constants: order n is not a valid scalar, n-1 is, and (n-1)*G = -G
    for g in [Grp::Ristretto255, Grp::P256, Grp::P384, Grp::P521] {
        let n = g.order_bytes();
        if n.len() != g.scalar_len() || g.field_prime_bytes().len() != g.scalar_len() {
            return Err(format!("reference self-test: constant lengths of {g:?}"));
        }
        if g.valid_scalar(&n) {
            return Err(format!("reference self-test: order of {g:?} accepted as scalar"));
        }
        let mut nm1 = n.clone();
        let i = if g.little_endian() { 0 } else { nm1.len() - 1 };
        nm1[i] -= 1;
        if !g.valid_scalar(&nm1) {
            return Err(format!("reference self-test: order-1 of {g:?} rejected as scalar"));
        }
        let mut one = vec![0u8; g.scalar_len()];
        one[i] = 1;
        let gpt = g.base_mul(&one).ok_or("base_mul(1)")?;
        let neg = g.base_mul(&nm1).ok_or("base_mul(n-1)")?;
        // (n-1)*((n-1)*G) = G
        let back = g.mul(&nm1, &neg).ok_or("mul")?;
        st_eq!(back, gpt, "(n-1)^2 * G = G in {g:?}");
    }
    // RFC 9497 Appendix A, OPRF mode
    let ov = vectors::parse_oprf();
    let mut n_oprf = 0;
    for v in &ov {
        let Some(o) = oprf_kind_of(&v.suite) else { continue };
        let g = grp_of_oprf(o);
        let sk = derive_key_pair(g, o, &v.seed, &v.key_info).ok_or("derive_key_pair failed")?;
        st_eq!(sk, v.sk, "RFC 9497 {} DeriveKeyPair", v.suite);
        // batch vectors hold comma-separated values; the OPRF-mode vectors are all batch size 1
        let blinded = oprf_blind(o, &v.input, &v.blind).ok_or("blind failed")?;
        st_eq!(blinded, v.blinded, "RFC 9497 {} Blind", v.suite);
        let ev = oprf_evaluate(o, &v.sk, &blinded).ok_or("evaluate failed")?;
        st_eq!(ev, v.evaluated, "RFC 9497 {} BlindEvaluate", v.suite);
        st_eq!(g.mul(&v.sk, &blinded).ok_or("mul failed")?, v.evaluated, "RFC 9497 {} own scalar mult", v.suite);
        let out = oprf_finalize(o, &v.input, &v.blind, &ev).ok_or("finalize failed")?;
        st_eq!(out, v.output, "RFC 9497 {} Finalize", v.suite);
        let out2 = oprf_finalize_own(o, &v.input, &v.blind, &ev).ok_or("finalize(own) failed")?;
        st_eq!(out2, v.output, "RFC 9497 {} Finalize (own)", v.suite);
        n_oprf += 1;
    }
    if n_oprf < 8 {
        return Err(format!("reference self-test: only {n_oprf} RFC 9497 OPRF-mode vectors parsed"));
    }
    // RFC 9807 Appendix C
    let vs = vectors::parse_opaque();
    let mut n_real = 0;
    let mut n_fake = 0;
    let ident = |x: &[u8]| x.to_vec();
    for v in &vs {
        let o = oprf_kind_of(v.cfg.get("OPRF").map(|s| s.as_str()).unwrap_or("")).ok_or("vector OPRF")?;
        let k = ke_kind_of(v.cfg.get("Group").map(|s| s.as_str()).unwrap_or("")).ok_or("vector Group")?;
        let s = Suite::new(o, k);
        let ctx = hex::decode(v.cfg.get("Context").ok_or("vector Context")?).map_err(|e| e.to_string())?;
        let (cesk, cepk) = derive_dh_key_pair(k, o, &v.req("client_keyshare_seed")).ok_or("client keyshare")?;
        let (sesk, sepk) = derive_dh_key_pair(k, o, &v.req("server_keyshare_seed")).ok_or("server keyshare")?;
        if !v.fake {
            st_eq!(ke_public_key(k, &v.req("server_private_key")).ok_or("pk")?, v.req("server_public_key"), "{} server public key", v.title);
            let ri = RegInputs {
                oprf_seed: v.req("oprf_seed"),
                cred_id: v.req("credential_identifier"),
                password: v.req("password"),
                blind: v.req("blind_registration"),
                envelope_nonce: v.req("envelope_nonce"),
                server_pk: v.req("server_public_key"),
                id_u: v.get("client_identity"),
                id_s: v.get("server_identity"),
            };
            let r = registration(&s, &ri, &ident).ok_or("reference registration failed")?;
            st_eq!(r.request, v.req("registration_request"), "{} registration_request", v.title);
            st_eq!(r.response, v.req("registration_response"), "{} registration_response", v.title);
            st_eq!(r.upload, v.req("registration_upload"), "{} registration_upload", v.title);
            st_eq!(r.export_key, v.req("export_key"), "{} export_key", v.title);
            st_eq!(r.randomized_pwd, v.req("randomized_password"), "{} randomized_password", v.title);
            st_eq!(r.env.auth_key, v.req("auth_key"), "{} auth_key", v.title);
            st_eq!(r.env.client_pk, v.req("client_public_key"), "{} client_public_key", v.title);
            st_eq!(r.envelope, v.req("envelope"), "{} envelope", v.title);
            let li = LoginInputs {
                oprf_seed: v.req("oprf_seed"),
                cred_id: v.req("credential_identifier"),
                password: v.req("password"),
                blind: v.req("blind_login"),
                client_nonce: v.req("client_nonce"),
                client_e_sk: cesk,
                client_e_pk: cepk,
                server_sk: v.req("server_private_key"),
                server_pk: v.req("server_public_key"),
                rec_client_pk: r.env.client_pk.clone(),
                rec_masking_key: r.masking_key.clone(),
                rec_envelope: r.envelope.clone(),
                masking_nonce: v.req("masking_nonce"),
                server_nonce: v.req("server_nonce"),
                server_e_sk: sesk,
                server_e_pk: sepk,
                ctx: ctx.clone(),
                id_u: v.get("client_identity"),
                id_s: v.get("server_identity"),
            };
            let l = login(&s, &li, &ident).ok_or("reference login failed")?;
            st_eq!(l.ke1, v.req("KE1"), "{} KE1", v.title);
            st_eq!(l.ke2, v.req("KE2"), "{} KE2", v.title);
            st_eq!(l.server_ks.handshake_secret, v.req("handshake_secret"), "{} handshake_secret", v.title);
            st_eq!(l.server_ks.km2, v.req("server_mac_key"), "{} server_mac_key", v.title);
            st_eq!(l.server_ks.km3, v.req("client_mac_key"), "{} client_mac_key", v.title);
            st_eq!(l.server_ks.session_key, v.req("session_key"), "{} session_key (server)", v.title);
            let c = l.client.ok_or(format!("{}: reference client rejected the RFC vector", v.title))?;
            st_eq!(c.ke3, v.req("KE3"), "{} KE3", v.title);
            st_eq!(c.session_key, v.req("session_key"), "{} session_key (client)", v.title);
            st_eq!(c.export_key, v.req("export_key"), "{} export_key (login)", v.title);
            n_real += 1;
        } else {
            // fake record: envelope of zeros, given masking key and fake client public key
            let ke1 = v.req("KE1");
            let noe = s.noe;
            let li = LoginInputs {
                oprf_seed: v.req("oprf_seed"),
                cred_id: v.req("credential_identifier"),
                password: vec![],
                blind: vec![],
                client_nonce: ke1[noe..noe + 32].to_vec(),
                client_e_sk: vec![],
                client_e_pk: ke1[noe + 32..].to_vec(),
                server_sk: v.req("server_private_key"),
                server_pk: v.req("server_public_key"),
                rec_client_pk: v.req("client_public_key"),
                rec_masking_key: v.req("masking_key"),
                rec_envelope: vec![0u8; 32 + s.nh],
                masking_nonce: v.req("masking_nonce"),
                server_nonce: v.req("server_nonce"),
                server_e_sk: sesk,
                server_e_pk: sepk,
                ctx: ctx.clone(),
                id_u: v.get("client_identity"),
                id_s: v.get("server_identity"),
            };
            let ke2 = fake_ke2(&s, &li, &ke1[..noe]).ok_or("reference fake login failed")?;
            st_eq!(ke2, v.req("KE2"), "{} KE2", v.title);
            n_fake += 1;
        }
    }
    if n_real != 6 || n_fake != 3 {
        return Err(format!("reference self-test: parsed {n_real} real / {n_fake} fake RFC 9807 vectors, expected 6/3"));
    }
    Ok(())
}

/// Server side only, from a received blinded element (used for fake-record
/// vectors and for checks that start from a witnessed KE1).
pub fn fake_ke2(s: &Suite, i: &LoginInputs, blinded: &[u8]) -> Option<Vec<u8>> {
    server_response(s, i, blinded).map(|(ke2, _)| ke2)
}

/// KE2 and the server key schedule for a given blinded element (the rest of
/// KE1 comes from `i.client_nonce` / `i.client_e_pk`).
pub fn server_response(s: &Suite, i: &LoginInputs, blinded: &[u8]) -> Option<(Vec<u8>, KeySchedule)> {
    let mut ke1 = blinded.to_vec();
    ke1.extend_from_slice(&i.client_nonce);
    ke1.extend_from_slice(&i.client_e_pk);
    let key = s.oprf_key(&i.oprf_seed, &i.cred_id)?;
    let evaluated = oprf_evaluate(s.oprf, &key, blinded)?;
    let masked = s.masked_response(&i.rec_masking_key, &i.masking_nonce, &i.server_pk, &i.rec_envelope);
    let mut cred_resp = evaluated;
    cred_resp.extend_from_slice(&i.masking_nonce);
    cred_resp.extend_from_slice(&masked);
    let id_s_eff = i.id_s.clone().unwrap_or_else(|| i.server_pk.clone());
    let id_u_eff = i.id_u.clone().unwrap_or_else(|| i.rec_client_pk.clone());
    let preamble = s.preamble(&i.ctx, &id_u_eff, &ke1, &id_s_eff, &cred_resp, &i.server_nonce, &i.server_e_pk);
    let dh1 = ke_dh(s.ke, &i.server_e_sk, &i.client_e_pk)?;
    let dh2 = ke_dh(s.ke, &i.server_sk, &i.client_e_pk)?;
    let dh3 = ke_dh(s.ke, &i.server_e_sk, &i.rec_client_pk)?;
    let mut ikm = dh1;
    ikm.extend_from_slice(&dh2);
    ikm.extend_from_slice(&dh3);
    let ks = s.key_schedule(&ikm, &preamble);
    let mut ke2 = cred_resp;
    ke2.extend_from_slice(&i.server_nonce);
    ke2.extend_from_slice(&i.server_e_pk);
    ke2.extend_from_slice(&ks.server_mac);
    Some((ke2, ks))
}

//! Harness-side implementation of the public `opaque_ke::ksf::Ksf` trait.
//!
//! `DynKsf` is the `Ksf` type of all 20 generated cipher suites.  An instance
//! carries a tag and a mode; `Default::default()` yields the thread's configured
//! default instance (tag `DEFAULT_TAG`).  Every `hash` call is journalled in a
//! thread-local journal that property code reads after each API call.

use std::cell::RefCell;

use generic_array::{ArrayLength, GenericArray};
use opaque_ke::errors::InternalError;
use opaque_ke::ksf::Ksf;
use sha2::{Digest, Sha512};

pub const DEFAULT_TAG: u32 = 0xD0D0;

#[derive(Clone, Debug, PartialEq, Eq, Hash, serde::Serialize, serde::Deserialize)]
pub enum KsfSpec {
    /// delegate to `opaque_ke::ksf::Identity`
    Identity,
    /// delegate to the crate's `impl Ksf for argon2::Argon2`
    Argon2 { m_kib: u32, t: u32, p: u32 },
    /// `argon2::Argon2::default()` through the crate's impl
    Argon2Default,
    /// fully parameterised instance: algorithm (0 = Argon2d, 1 = Argon2i, 2 = Argon2id),
    /// version (0x10 if `v10`, else 0x13), costs, and a secret ("pepper") selected from a
    /// static table (0 = none)
    Argon2Ex { alg: u8, v10: bool, m_kib: u32, t: u32, p: u32, secret: u8 },
    /// Argon2id with an explicitly configured output length (`Params::output_len`), which need
    /// not match the suite's hash length: the adapter must then fail cleanly
    Argon2Out { m_kib: u32, t: u32, p: u32, out_len: u32 },
    /// cheap salted hash family H_i (SHA-512 in counter mode over i || input)
    H(u8),
    /// behaves like `then`, except that it fails with `InternalError::KsfError`
    /// when it performs the n-th `hash` call (1-based) counted on this thread
    /// since the last journal reset
    FailAt(u32, Box<KsfSpec>),
}

impl KsfSpec {
    /// are two specs the same function (ignoring fault plans)?
    pub fn same_function(&self, other: &KsfSpec) -> bool {
        self.base().canonical() == other.base().canonical()
    }
    pub fn base(&self) -> &KsfSpec {
        match self {
            KsfSpec::FailAt(_, t) => t.base(),
            s => s,
        }
    }
    fn canonical(&self) -> KsfSpec {
        match self {
            KsfSpec::Argon2Default => {
                let p = argon2::Params::default();
                KsfSpec::Argon2 {
                    m_kib: p.m_cost(),
                    t: p.t_cost(),
                    p: p.p_cost(),
                }
            }
            KsfSpec::Argon2Ex { alg: 2, v10: false, m_kib, t, p, secret: 0 } => KsfSpec::Argon2 {
                m_kib: *m_kib,
                t: *t,
                p: *p,
            },
            s => s.clone(),
        }
    }
}

const SECRETS: [&[u8]; 3] = [b"", b"pepper-one", b"another pepper"];

/// the `argon2` crate instance a spec denotes (None for non-Argon2 specs)
pub fn argon2_instance(spec: &KsfSpec) -> Option<argon2::Argon2<'static>> {
    match spec {
        KsfSpec::Argon2Default => Some(argon2::Argon2::default()),
        KsfSpec::Argon2 { m_kib, t, p } => Some(argon2::Argon2::new(
            argon2::Algorithm::Argon2id,
            argon2::Version::V0x13,
            argon2::Params::new(*m_kib, *t, *p, None).ok()?,
        )),
        KsfSpec::Argon2Out { m_kib, t, p, out_len } => Some(argon2::Argon2::new(
            argon2::Algorithm::Argon2id,
            argon2::Version::V0x13,
            argon2::Params::new(*m_kib, *t, *p, Some(*out_len as usize)).ok()?,
        )),
        KsfSpec::Argon2Ex { alg, v10, m_kib, t, p, secret } => {
            let algorithm = match alg {
                0 => argon2::Algorithm::Argon2d,
                1 => argon2::Algorithm::Argon2i,
                _ => argon2::Algorithm::Argon2id,
            };
            let version = if *v10 { argon2::Version::V0x10 } else { argon2::Version::V0x13 };
            let params = argon2::Params::new(*m_kib, *t, *p, None).ok()?;
            let sec = SECRETS[*secret as usize % SECRETS.len()];
            if sec.is_empty() {
                Some(argon2::Argon2::new(algorithm, version, params))
            } else {
                argon2::Argon2::new_with_secret(sec, algorithm, version, params).ok()
            }
        }
        _ => None,
    }
}

#[derive(Clone, Debug)]
pub struct KsfCall {
    pub tag: u32,
    pub spec: KsfSpec,
    pub input: Vec<u8>,
    pub output: Option<Vec<u8>>,
}

thread_local! {
    static JOURNAL: RefCell<Vec<KsfCall>> = const { RefCell::new(Vec::new()) };
    static DEFAULT_SPEC: RefCell<KsfSpec> = const { RefCell::new(KsfSpec::Identity) };
    static DEFAULTS_BUILT: RefCell<u32> = const { RefCell::new(0) };
}

pub fn journal_reset() {
    JOURNAL.with(|j| j.borrow_mut().clear());
    DEFAULTS_BUILT.with(|d| *d.borrow_mut() = 0);
}
pub fn journal_take() -> Vec<KsfCall> {
    JOURNAL.with(|j| std::mem::take(&mut *j.borrow_mut()))
}
pub fn journal_len() -> usize {
    JOURNAL.with(|j| j.borrow().len())
}
pub fn set_default_spec(s: KsfSpec) {
    DEFAULT_SPEC.with(|d| *d.borrow_mut() = s);
}
pub fn default_spec() -> KsfSpec {
    DEFAULT_SPEC.with(|d| d.borrow().clone())
}

#[derive(Clone, Debug)]
pub struct DynKsf {
    pub tag: u32,
    pub spec: KsfSpec,
}

impl DynKsf {
    pub fn new(tag: u32, spec: KsfSpec) -> Self {
        DynKsf { tag, spec }
    }
}

impl Default for DynKsf {
    fn default() -> Self {
        DEFAULTS_BUILT.with(|d| *d.borrow_mut() += 1);
        DynKsf {
            tag: DEFAULT_TAG,
            spec: default_spec(),
        }
    }
}

fn eval<L: ArrayLength<u8>>(
    spec: &KsfSpec,
    input: GenericArray<u8, L>,
    call_no: u32,
) -> Result<GenericArray<u8, L>, InternalError> {
    match spec {
        KsfSpec::Identity => opaque_ke::ksf::Identity.hash(input),
        KsfSpec::Argon2 { m_kib, t, p } => {
            let params = argon2::Params::new(*m_kib, *t, *p, None)
                .expect("HARNESS-BUG: generated Argon2 parameters must be valid");
            let a = argon2::Argon2::new(argon2::Algorithm::Argon2id, argon2::Version::V0x13, params);
            a.hash(input)
        }
        KsfSpec::Argon2Default => argon2::Argon2::default().hash(input),
        KsfSpec::Argon2Ex { .. } | KsfSpec::Argon2Out { .. } => argon2_instance(spec)
            .expect("HARNESS-BUG: generated Argon2 parameters must be valid")
            .hash(input),
        KsfSpec::H(i) => {
            let mut out = GenericArray::<u8, L>::default();
            let mut ctr = 0u32;
            let mut off = 0;
            while off < out.len() {
                let mut h = Sha512::new();
                h.update(b"vharness-ksf");
                h.update([*i]);
                h.update(ctr.to_be_bytes());
                h.update(&input);
                let block = h.finalize();
                let n = (out.len() - off).min(block.len());
                out[off..off + n].copy_from_slice(&block[..n]);
                off += n;
                ctr += 1;
            }
            Ok(out)
        }
        KsfSpec::FailAt(n, then) => {
            if call_no == *n {
                Err(InternalError::KsfError)
            } else {
                eval(then, input, call_no)
            }
        }
    }
}

impl Ksf for DynKsf {
    fn hash<L: ArrayLength<u8>>(
        &self,
        input: GenericArray<u8, L>,
    ) -> Result<GenericArray<u8, L>, InternalError> {
        let call_no = journal_len() as u32 + 1;
        let inp = input.to_vec();
        let out = eval(&self.spec, input, call_no);
        JOURNAL.with(|j| {
            j.borrow_mut().push(KsfCall {
                tag: self.tag,
                spec: self.spec.clone(),
                input: inp,
                output: out.as_ref().ok().map(|o| o.to_vec()),
            })
        });
        out
    }
}

/// How a suite's `Ksf` type is built from a spec.  `DynKsf` accepts every spec;
/// the crate's own `Identity` / `Argon2` types accept only their own kind.
pub trait KsfBuild: Ksf + Sized {
    fn build(tag: u32, spec: &KsfSpec) -> Option<Self>;
    /// the spec equivalent to `Self::default()`
    fn default_equiv() -> KsfSpec;
    const JOURNALLED: bool;
}

impl KsfBuild for DynKsf {
    fn build(tag: u32, spec: &KsfSpec) -> Option<Self> {
        Some(DynKsf::new(tag, spec.clone()))
    }
    fn default_equiv() -> KsfSpec {
        default_spec()
    }
    const JOURNALLED: bool = true;
}

impl KsfBuild for opaque_ke::ksf::Identity {
    fn build(_tag: u32, spec: &KsfSpec) -> Option<Self> {
        matches!(spec, KsfSpec::Identity).then_some(opaque_ke::ksf::Identity)
    }
    fn default_equiv() -> KsfSpec {
        KsfSpec::Identity
    }
    const JOURNALLED: bool = false;
}

impl KsfBuild for argon2::Argon2<'static> {
    fn build(_tag: u32, spec: &KsfSpec) -> Option<Self> {
        match spec {
            KsfSpec::Argon2Default => Some(argon2::Argon2::default()),
            KsfSpec::Argon2 { .. } | KsfSpec::Argon2Ex { .. } | KsfSpec::Argon2Out { .. } => argon2_instance(spec),
            _ => None,
        }
    }
    fn default_equiv() -> KsfSpec {
        KsfSpec::Argon2Default
    }
    const JOURNALLED: bool = false;
}

/// Stretch(input) for a spec, computed WITHOUT going through opaque-ke's `Ksf`
/// impls (Argon2 is called through the `argon2` crate directly with the RFC's
/// salt = zeroes(16) and output length = input length).  Used by the reference
/// model.  `None` for fault specs.
pub fn pure_stretch(spec: &KsfSpec, input: &[u8]) -> Option<Vec<u8>> {
    match spec {
        KsfSpec::Identity => Some(input.to_vec()),
        KsfSpec::Argon2 { m_kib, t, p } => {
            let params = argon2::Params::new(*m_kib, *t, *p, None).ok()?;
            let a = argon2::Argon2::new(argon2::Algorithm::Argon2id, argon2::Version::V0x13, params);
            let mut out = vec![0u8; input.len()];
            a.hash_password_into(input, &[0u8; 16], &mut out).ok()?;
            Some(out)
        }
        KsfSpec::Argon2Default => {
            let mut out = vec![0u8; input.len()];
            argon2::Argon2::default()
                .hash_password_into(input, &[0u8; 16], &mut out)
                .ok()?;
            Some(out)
        }
        KsfSpec::Argon2Ex { .. } | KsfSpec::Argon2Out { .. } => {
            let mut out = vec![0u8; input.len()];
            argon2_instance(spec)?.hash_password_into(input, &[0u8; 16], &mut out).ok()?;
            Some(out)
        }
        KsfSpec::H(i) => {
            let mut out = vec![0u8; input.len()];
            let mut ctr = 0u32;
            let mut off = 0;
            while off < out.len() {
                let mut h = Sha512::new();
                h.update(b"vharness-ksf");
                h.update([*i]);
                h.update(ctr.to_be_bytes());
                h.update(input);
                let block = h.finalize();
                let n = (out.len() - off).min(block.len());
                out[off..off + n].copy_from_slice(&block[..n]);
                off += n;
                ctr += 1;
            }
            Some(out)
        }
        KsfSpec::FailAt(_, _) => None,
    }
}

/// A zero-sized, non-identity KSF type (a unit struct with fixed parameters, as an
/// application might define): behaves like `H(ZST_FAMILY)`, journalled.
#[derive(Default, Clone, Copy, Debug)]
pub struct ZstKsf;
pub const ZST_FAMILY: u8 = 9;

impl Ksf for ZstKsf {
    fn hash<L: ArrayLength<u8>>(
        &self,
        input: GenericArray<u8, L>,
    ) -> Result<GenericArray<u8, L>, InternalError> {
        let call_no = journal_len() as u32 + 1;
        let inp = input.to_vec();
        let spec = KsfSpec::H(ZST_FAMILY);
        let out = eval(&spec, input, call_no);
        JOURNAL.with(|j| {
            j.borrow_mut().push(KsfCall {
                tag: DEFAULT_TAG,
                spec,
                input: inp,
                output: out.as_ref().ok().map(|o| o.to_vec()),
            })
        });
        out
    }
}

impl KsfBuild for ZstKsf {
    fn build(_tag: u32, spec: &KsfSpec) -> Option<Self> {
        matches!(spec, KsfSpec::H(ZST_FAMILY)).then_some(ZstKsf)
    }
    fn default_equiv() -> KsfSpec {
        KsfSpec::H(ZST_FAMILY)
    }
    const JOURNALLED: bool = true;
}

//! Harness-side implementation of the public `opaque_ke::keypair::SecretKey`
//! trait: a private key that "lives elsewhere".  All calls are journalled in a
//! thread-local journal and a fault plan can make the n-th call fail with
//! `InternalError::Custom(RemoteErr(n))`.

use std::cell::RefCell;
use std::marker::PhantomData;

use generic_array::GenericArray;
use opaque_ke::errors::InternalError;
use opaque_ke::key_exchange::group::KeGroup;
use opaque_ke::keypair::{PrivateKey, PublicKey, SecretKey};

#[derive(Clone, Copy, Debug, PartialEq, Eq)]
pub struct RemoteErr(pub u32);

#[derive(Clone, Debug, PartialEq, Eq)]
pub enum RemoteCall {
    PublicKey,
    DiffieHellman(Vec<u8>),
    Serialize,
    Deserialize(Vec<u8>),
}

thread_local! {
    static CALLS: RefCell<Vec<RemoteCall>> = const { RefCell::new(Vec::new()) };
    /// fail on the n-th call (1-based, counted since the last reset); 0 = never
    static FAIL_AT: RefCell<u32> = const { RefCell::new(0) };
}

pub fn reset(fail_at: u32) {
    CALLS.with(|c| c.borrow_mut().clear());
    FAIL_AT.with(|f| *f.borrow_mut() = fail_at);
}
pub fn take_calls() -> Vec<RemoteCall> {
    CALLS.with(|c| std::mem::take(&mut *c.borrow_mut()))
}
pub fn ncalls() -> usize {
    CALLS.with(|c| c.borrow().len())
}

fn enter<E>(call: RemoteCall) -> Result<(), InternalError<E>>
where
    E: From<RemoteErr>,
{
    let n = CALLS.with(|c| {
        let mut c = c.borrow_mut();
        c.push(call);
        c.len() as u32
    });
    let fail = FAIL_AT.with(|f| *f.borrow());
    if fail != 0 && n == fail {
        Err(InternalError::Custom(E::from(RemoteErr(n))))
    } else {
        Ok(())
    }
}

pub struct RemoteKey<KG: KeGroup> {
    inner: PrivateKey<KG>,
    _p: PhantomData<KG>,
}

impl<KG: KeGroup> Clone for RemoteKey<KG> {
    fn clone(&self) -> Self {
        RemoteKey {
            inner: self.inner.clone(),
            _p: PhantomData,
        }
    }
}

impl<KG: KeGroup> RemoteKey<KG> {
    pub fn new(inner: PrivateKey<KG>) -> Self {
        RemoteKey {
            inner,
            _p: PhantomData,
        }
    }
}

impl<KG: KeGroup> SecretKey<KG> for RemoteKey<KG> {
    type Error = RemoteErr;
    type Len = KG::SkLen;

    fn diffie_hellman(
        &self,
        pk: PublicKey<KG>,
    ) -> Result<GenericArray<u8, KG::PkLen>, InternalError<Self::Error>> {
        enter::<RemoteErr>(RemoteCall::DiffieHellman(pk.serialize().to_vec()))?;
        self.inner
            .diffie_hellman(pk)
            .map_err(|e| e.into_custom::<RemoteErr>())
    }

    fn public_key(&self) -> Result<PublicKey<KG>, InternalError<Self::Error>> {
        enter::<RemoteErr>(RemoteCall::PublicKey)?;
        self.inner
            .public_key()
            .map_err(|e| e.into_custom::<RemoteErr>())
    }

    fn serialize(&self) -> GenericArray<u8, Self::Len> {
        CALLS.with(|c| c.borrow_mut().push(RemoteCall::Serialize));
        self.inner.serialize()
    }

    fn deserialize(input: &[u8]) -> Result<Self, InternalError<Self::Error>> {
        enter::<RemoteErr>(RemoteCall::Deserialize(input.to_vec()))?;
        PrivateKey::<KG>::deserialize(input)
            .map(RemoteKey::new)
            .map_err(|e| e.into_custom::<RemoteErr>())
    }
}

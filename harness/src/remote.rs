//! Harness-side implementation of the public `opaque_ke::keypair::SecretKey`
//! trait: a private key that "lives elsewhere".  All calls are journalled in a
//! thread-local journal and a fault plan can make the n-th call fail with
//! `InternalError::Custom(RemoteErr(n))`.

use std::cell::RefCell;
use std::marker::PhantomData;

use generic_array::GenericArray;
use opaque_ke::errors::InternalError;
use opaque_ke::key_exchange::group::KeGroup;
use opaque_ke::keypair::{PrivateKey, PublicKey, SecretKey};

#[derive(Clone, Copy, Debug, PartialEq, Eq)]
pub struct RemoteErr(pub u32);

#[derive(Clone, Debug, PartialEq, Eq)]
pub enum RemoteCall {
    PublicKey,
    DiffieHellman(Vec<u8>),
    Serialize,
    Deserialize(Vec<u8>),
}

thread_local! {
    static CALLS: RefCell<Vec<RemoteCall>> = const { RefCell::new(Vec::new()) };
    /// fail on the n-th call (1-based, counted since the last reset); 0 = never
    static FAIL_AT: RefCell<u32> = const { RefCell::new(0) };
}

thread_local! {
    /// handle mode: `serialize` hands out an opaque handle (NOT the private scalar) and
    /// `deserialize` resolves handles through this table, like an HSM slot id would
    static HANDLE_MODE: RefCell<bool> = const { RefCell::new(false) };
    static HANDLES: RefCell<Vec<(Vec<u8>, Vec<u8>)>> = const { RefCell::new(Vec::new()) };
}

pub fn set_handle_mode(on: bool) {
    HANDLE_MODE.with(|h| *h.borrow_mut() = on);
    if !on {
        HANDLES.with(|t| t.borrow_mut().clear());
    }
}
fn handle_mode() -> bool {
    HANDLE_MODE.with(|h| *h.borrow())
}
/// a handle has the length of a private key and is itself a plausible key encoding
/// (one middle bit differs), so code that wrongly treats it as the scalar does not
/// fail but computes with another key
fn handle_of(sk: &[u8]) -> Vec<u8> {
    let mut h = sk.to_vec();
    let i = h.len() / 2;
    h[i] ^= 0x10;
    HANDLES.with(|t| {
        let mut t = t.borrow_mut();
        if !t.iter().any(|(k, _)| *k == h) {
            t.push((h.clone(), sk.to_vec()));
        }
    });
    h
}
fn resolve(handle: &[u8]) -> Option<Vec<u8>> {
    HANDLES.with(|t| t.borrow().iter().find(|(k, _)| k == handle).map(|(_, v)| v.clone()))
}

pub fn reset(fail_at: u32) {
    CALLS.with(|c| c.borrow_mut().clear());
    FAIL_AT.with(|f| *f.borrow_mut() = fail_at);
}
pub fn take_calls() -> Vec<RemoteCall> {
    CALLS.with(|c| std::mem::take(&mut *c.borrow_mut()))
}
pub fn ncalls() -> usize {
    CALLS.with(|c| c.borrow().len())
}

fn enter<E>(call: RemoteCall) -> Result<(), InternalError<E>>
where
    E: From<RemoteErr>,
{
    let n = CALLS.with(|c| {
        let mut c = c.borrow_mut();
        c.push(call);
        c.len() as u32
    });
    let fail = FAIL_AT.with(|f| *f.borrow());
    if fail != 0 && n == fail {
        Err(InternalError::Custom(E::from(RemoteErr(n))))
    } else {
        Ok(())
    }
}

pub struct RemoteKey<KG: KeGroup> {
    inner: PrivateKey<KG>,
    _p: PhantomData<KG>,
}

impl<KG: KeGroup> Clone for RemoteKey<KG> {
    fn clone(&self) -> Self {
        RemoteKey {
            inner: self.inner.clone(),
            _p: PhantomData,
        }
    }
}

impl<KG: KeGroup> RemoteKey<KG> {
    pub fn new(inner: PrivateKey<KG>) -> Self {
        RemoteKey {
            inner,
            _p: PhantomData,
        }
    }
}

impl<KG: KeGroup> SecretKey<KG> for RemoteKey<KG> {
    type Error = RemoteErr;
    type Len = KG::SkLen;

    fn diffie_hellman(
        &self,
        pk: PublicKey<KG>,
    ) -> Result<GenericArray<u8, KG::PkLen>, InternalError<Self::Error>> {
        enter::<RemoteErr>(RemoteCall::DiffieHellman(pk.serialize().to_vec()))?;
        self.inner
            .diffie_hellman(pk)
            .map_err(|e| e.into_custom::<RemoteErr>())
    }

    fn public_key(&self) -> Result<PublicKey<KG>, InternalError<Self::Error>> {
        enter::<RemoteErr>(RemoteCall::PublicKey)?;
        self.inner
            .public_key()
            .map_err(|e| e.into_custom::<RemoteErr>())
    }

    fn serialize(&self) -> GenericArray<u8, Self::Len> {
        CALLS.with(|c| c.borrow_mut().push(RemoteCall::Serialize));
        let raw = self.inner.serialize();
        if handle_mode() {
            GenericArray::clone_from_slice(&handle_of(&raw))
        } else {
            raw
        }
    }

    fn deserialize(input: &[u8]) -> Result<Self, InternalError<Self::Error>> {
        enter::<RemoteErr>(RemoteCall::Deserialize(input.to_vec()))?;
        if handle_mode() {
            let Some(sk) = resolve(input) else {
                return Err(InternalError::Custom(RemoteErr(0xDEAD)));
            };
            return PrivateKey::<KG>::deserialize(&sk)
                .map(RemoteKey::new)
                .map_err(|e| e.into_custom::<RemoteErr>());
        }
        PrivateKey::<KG>::deserialize(input)
            .map(RemoteKey::new)
            .map_err(|e| e.into_custom::<RemoteErr>())
    }
}

// ---------------------------------------------------------------------------------------------
// An external key whose serialized form is a 16-byte slot handle: `Len` differs from the private
// key length of every supported group (32 / 48 / 66), as in the crate's own "Remote Private Keys"
// documentation example (`type Len = U0`).  Same journal and fault plan as `RemoteKey`.

thread_local! {
    /// when set, the suite adapters build `ServerSetup<CS, RemoteKeyH<KG>>` instead of `ServerSetup<CS, RemoteKey<KG>>`
    static SHORT_HANDLE: RefCell<bool> = const { RefCell::new(false) };
    static SLOTS: RefCell<Vec<Vec<u8>>> = const { RefCell::new(Vec::new()) };
}

pub fn set_short_handle(on: bool) {
    SHORT_HANDLE.with(|h| *h.borrow_mut() = on);
    if !on {
        SLOTS.with(|t| t.borrow_mut().clear());
    }
}
pub fn short_handle() -> bool {
    SHORT_HANDLE.with(|h| *h.borrow())
}

pub const SLOT_TAG: &[u8; 8] = b"HSM-SLOT";

fn slot_of(sk: &[u8]) -> [u8; 16] {
    let idx = SLOTS.with(|t| {
        let mut t = t.borrow_mut();
        match t.iter().position(|k| k == sk) {
            Some(i) => i,
            None => {
                t.push(sk.to_vec());
                t.len() - 1
            }
        }
    });
    let mut h = [0u8; 16];
    h[..8].copy_from_slice(SLOT_TAG);
    h[8..].copy_from_slice(&(idx as u64 + 1).to_be_bytes());
    h
}
fn slot_lookup(handle: &[u8]) -> Option<Vec<u8>> {
    if handle.len() != 16 || &handle[..8] != SLOT_TAG {
        return None;
    }
    let idx = u64::from_be_bytes(handle[8..].try_into().ok()?) as usize;
    SLOTS.with(|t| t.borrow().get(idx.checked_sub(1)?).cloned())
}

pub struct RemoteKeyH<KG: KeGroup> {
    inner: PrivateKey<KG>,
}

impl<KG: KeGroup> Clone for RemoteKeyH<KG> {
    fn clone(&self) -> Self {
        RemoteKeyH { inner: self.inner.clone() }
    }
}

impl<KG: KeGroup> RemoteKeyH<KG> {
    pub fn new(inner: PrivateKey<KG>) -> Self {
        RemoteKeyH { inner }
    }
}

impl<KG: KeGroup> SecretKey<KG> for RemoteKeyH<KG> {
    type Error = RemoteErr;
    type Len = generic_array::typenum::U16;

    fn diffie_hellman(&self, pk: PublicKey<KG>) -> Result<GenericArray<u8, KG::PkLen>, InternalError<Self::Error>> {
        enter::<RemoteErr>(RemoteCall::DiffieHellman(pk.serialize().to_vec()))?;
        self.inner.diffie_hellman(pk).map_err(|e| e.into_custom::<RemoteErr>())
    }

    fn public_key(&self) -> Result<PublicKey<KG>, InternalError<Self::Error>> {
        enter::<RemoteErr>(RemoteCall::PublicKey)?;
        self.inner.public_key().map_err(|e| e.into_custom::<RemoteErr>())
    }

    fn serialize(&self) -> GenericArray<u8, Self::Len> {
        CALLS.with(|c| c.borrow_mut().push(RemoteCall::Serialize));
        GenericArray::clone_from_slice(&slot_of(&self.inner.serialize()))
    }

    fn deserialize(input: &[u8]) -> Result<Self, InternalError<Self::Error>> {
        enter::<RemoteErr>(RemoteCall::Deserialize(input.to_vec()))?;
        let Some(sk) = slot_lookup(input) else {
            return Err(InternalError::Custom(RemoteErr(0xDEAD)));
        };
        PrivateKey::<KG>::deserialize(&sk)
            .map(RemoteKeyH::new)
            .map_err(|e| e.into_custom::<RemoteErr>())
    }
}

//! vcheck <ID> --tier quick|thorough --seed N [--suite NAME] [--scale F]
//! vcheck <ID> --replay FILE
//! vcheck selftest          (start-up self-checks only)

use std::path::PathBuf;
use std::time::Instant;

use vharness::runner::*;

fn usage() -> ! {
    eprintln!("usage: vcheck <ID> [--tier quick|thorough] [--seed N] [--suite NAME] [--scale F] [--replay FILE] [--verif-dir DIR]");
    std::process::exit(2);
}

fn main() {
    let args: Vec<String> = std::env::args().collect();
    if args.len() < 2 {
        usage();
    }
    let id = args[1].clone();
    let mut tier = match std::env::var("VERIF_TIER").ok().as_deref() {
        Some("thorough") => Tier::Thorough,
        _ => Tier::Quick,
    };
    let mut seed: u64 = std::env::var("VERIF_SEED").ok().and_then(|s| s.parse().ok()).unwrap_or(0);
    let mut suite_filter = None;
    let mut scale = 1.0f64;
    let mut replay: Option<String> = None;
    let mut verif_dir = PathBuf::from("/verif");
    let mut i = 2;
    while i < args.len() {
        let need = |i: usize| -> String { args.get(i + 1).cloned().unwrap_or_else(|| usage()) };
        match args[i].as_str() {
            "--tier" => {
                tier = match need(i).as_str() {
                    "quick" => Tier::Quick,
                    "thorough" => Tier::Thorough,
                    _ => usage(),
                };
                i += 1;
            }
            "--seed" => {
                seed = need(i).parse().unwrap_or_else(|_| usage());
                i += 1;
            }
            "--suite" => {
                suite_filter = Some(need(i));
                i += 1;
            }
            "--scale" => {
                scale = need(i).parse().unwrap_or_else(|_| usage());
                i += 1;
            }
            "--replay" => {
                replay = Some(need(i));
                i += 1;
            }
            "--verif-dir" => {
                verif_dir = PathBuf::from(need(i));
                i += 1;
            }
            _ => usage(),
        }
        i += 1;
    }
    let cfg = RunCfg {
        tier,
        seed,
        suite_filter,
        verif_dir,
        scale,
    };
    install_panic_hook();
    match guarded(vharness::selftest::startup) {
        Ok(Ok(())) => {}
        Ok(Err(e)) => {
            println!("INCONCLUSIVE harness self-test failed: {e}");
            std::process::exit(2);
        }
        Err(p) => {
            println!("INCONCLUSIVE harness self-test panicked: {p}");
            std::process::exit(2);
        }
    }
    if id == "selftest" {
        println!("selftest ok");
        return;
    }
    if id == "gen-corpus" {
        // vcheck gen-corpus --verif-dir DIR : writes DIR/corpus/<target>/seed-*
        for (target, seeds) in [
            ("decoders", vharness::fuzzsupport::decoders_seeds()),
            ("login_response", vharness::fuzzsupport::login_response_seeds()),
            ("server_finish", vharness::fuzzsupport::server_finish_seeds()),
            ("server_start", vharness::fuzzsupport::server_start_seeds()),
            ("history", vharness::fuzzsupport::history_seeds()),
        ] {
            let dir = cfg.verif_dir.join("corpus").join(target);
            std::fs::create_dir_all(&dir).expect("create corpus dir");
            for (i, sd) in seeds.iter().enumerate() {
                std::fs::write(dir.join(format!("seed-{i:04}")), sd).expect("write seed");
            }
            println!("{target}: {} seeds", seeds.len());
        }
        let dir = cfg.verif_dir.join("corpus").join("decoders");
        let regs = vharness::fuzzsupport::decoders_regressions();
        for (name, data) in &regs {
            std::fs::write(dir.join(format!("regress-{name}")), data).expect("write regression input");
        }
        println!("decoders: {} regression inputs (repaired defects D1-D3)", regs.len());
        return;
    }
    if id == "fuzz-replay" {
        // vcheck fuzz-replay --suite <target> --replay <file-or-dir> [--scale 1 = strict: any tag counts]
        // env VERIF_FUZZ_PROPERTY=<Cxx>: only failures tagged with that property (panics: C12) count
        let target = cfg.suite_filter.clone().unwrap_or_else(|| usage());
        let path = replay.clone().unwrap_or_else(|| usage());
        let want = std::env::var("VERIF_FUZZ_PROPERTY").ok();
        let mut files: Vec<std::path::PathBuf> = Vec::new();
        let p = std::path::PathBuf::from(&path);
        if p.is_dir() {
            for e in std::fs::read_dir(&p).expect("read dir").flatten() {
                if e.path().is_file() {
                    files.push(e.path());
                }
            }
            files.sort();
        } else {
            files.push(p);
        }
        let mut bad = 0;
        let mut ok = 0;
        for f in &files {
            let Ok(data) = std::fs::read(f) else { continue };
            let r = guarded(|| vharness::fuzzsupport::run_target(&target, &data));
            let (tag, msg) = match r {
                Ok(Ok(())) => {
                    ok += 1;
                    continue;
                }
                Ok(Err(m)) => (m.split_whitespace().next().unwrap_or("").to_string(), m),
                Err(p) if p.contains("HARNESS-BUG") => {
                    println!("INCONCLUSIVE fuzz replay: {p}");
                    std::process::exit(2);
                }
                Err(p) => ("C12".to_string(), format!("C12 panic: {p}")),
            };
            if want.as_deref().map(|w| w == tag).unwrap_or(true) {
                bad += 1;
                eprintln!("[{tag}] fuzz input {} fails: {}", f.display(), &msg[..msg.len().min(400)]);
                println!("VIOLATION property={tag} replay={}", f.display());
            } else {
                eprintln!("note: fuzz input {} trips {tag} (not the property under check): {}", f.display(), &msg[..msg.len().min(200)]);
            }
        }
        if target == "history" {
            println!("HISTORY-STATS {:?}", vharness::fuzzsupport::history_totals());
        }
        println!("FUZZ-REPLAY target={target} files={} ok={ok} violations={bad}", files.len());
        std::process::exit(if bad > 0 { 1 } else { 0 });
    }
    let reg = vharness::props::registry();
    let Some((pid, run, replay_fn)) = reg.into_iter().find(|(p, _, _)| *p == id) else {
        eprintln!("unknown property {id}");
        std::process::exit(2);
    };
    if let Some(file) = replay {
        let raw = match std::fs::read(&file) {
            Ok(b) => b,
            Err(_) => {
                println!("INCONCLUSIVE cannot read replay file {file}");
                std::process::exit(2);
            }
        };
        let body: serde_json::Value = match serde_json::from_slice::<serde_json::Value>(&raw) {
            Ok(v) if v.get("case").is_some() => v,
            _ => {
                // not a case file: a raw fuzz input (libFuzzer artifact or corpus file)
                // replay files written by run_check.sh are named <ID>-fuzz-<target>-<artifact>
                let named = vharness::fuzzsupport::TARGETS.iter().copied().find(|t| file.contains(&format!("-fuzz-{t}-")));
                let target = match pid {
                    _ if named.is_some() => named.unwrap(),
                    "C04" => "login_response",
                    "C03" => "server_finish",
                    "C08" => "server_start",
                    "C07" => "history",
                    "C10" | "C11" | "C12" | "C13" => "decoders",
                    _ => {
                        println!("INCONCLUSIVE {file} is not a replay case of {pid}");
                        std::process::exit(2);
                    }
                };
                match guarded(|| vharness::fuzzsupport::run_target(target, &raw)) {
                    Ok(Ok(())) => {
                        println!("REPLAY-PASS property={pid} replay={file}");
                        std::process::exit(0);
                    }
                    Ok(Err(m)) => {
                        let tag = m.split_whitespace().next().unwrap_or("").to_string();
                        eprintln!("[{tag}] fuzz input fails: {}", &m[..m.len().min(500)]);
                        if tag == pid {
                            println!("VIOLATION property={pid} replay={file}");
                            std::process::exit(1);
                        }
                        println!("REPLAY-PASS property={pid} replay={file} (input trips {tag}, not {pid})");
                        std::process::exit(0);
                    }
                    Err(p) if p.contains("HARNESS-BUG") => {
                        println!("INCONCLUSIVE {p}");
                        std::process::exit(2);
                    }
                    Err(p) => {
                        eprintln!("[C12] fuzz input panics: {p}");
                        if pid == "C12" {
                            println!("VIOLATION property=C12 replay={file}");
                            std::process::exit(1);
                        }
                        println!("REPLAY-PASS property={pid} replay={file} (input panics: C12)");
                        std::process::exit(0);
                    }
                }
            }
        };
        let suite_name = body.get("suite").and_then(|s| s.as_str()).unwrap_or("");
        let Some(suite) = vharness::suites::by_name(suite_name) else {
            println!("INCONCLUSIVE unknown suite in replay file: {suite_name}");
            std::process::exit(2);
        };
        match replay_fn(&cfg, suite, body.get("case").unwrap_or(&serde_json::Value::Null)) {
            Ok(Ok(())) => {
                println!("REPLAY-PASS property={pid} replay={file}");
                std::process::exit(0);
            }
            Ok(Err(f)) => {
                eprintln!("[{pid}] replay fails: {}", f.reason);
                println!("VIOLATION property={pid} replay={file}");
                std::process::exit(1);
            }
            Err(Inconclusive(m)) => {
                println!("INCONCLUSIVE property={pid} {m}");
                std::process::exit(2);
            }
        }
    }
    start_watchdog(pid, 900);
    let t0 = Instant::now();
    let (out, ev) = run(&cfg);
    let code = finish(&cfg, pid, t0, out, ev);
    std::process::exit(code);
}

use vharness::proto::*;
use vharness::tape::*;
fn main() {
    for s in vharness::suites::all_suites() {
        let m = s.meta();
        let mut rng = TapeSpec::from_u64(1).rng();
        let t0 = std::time::Instant::now();
        let setup = s.setup_new(&mut rng);
        let (req, st) = s.client_reg_start(&mut rng, b"pw").unwrap();
        let resp = s.server_reg_start(&setup, &req, b"cred").unwrap();
        let fin = s.client_reg_finish(st, &mut rng, b"pw", &resp, Ids::default(), None).unwrap();
        let rec = s.server_reg_finish(&fin.upload);
        let (lreq, lst) = s.client_login_start(&mut rng, b"pw").unwrap();
        let (lresp, sst) = s.server_login_start(&mut rng, &setup, Some(&rec), &lreq, b"cred", None, Ids::default()).unwrap();
        let lf = s.client_login_finish(lst, b"pw", &lresp, None, Ids::default(), None).unwrap();
        let sk = s.server_login_finish(sst, &lf.fin).unwrap();
        assert_eq!(sk, lf.session_key);
        println!("{:45} ok {:?} {:?}", m.name, t0.elapsed(), m);
    }
}

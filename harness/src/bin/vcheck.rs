//! vcheck <ID> --tier quick|thorough --seed N [--suite NAME] [--scale F]
//! vcheck <ID> --replay FILE
//! vcheck selftest          (start-up self-checks only)

use std::path::PathBuf;
use std::time::Instant;

use vharness::runner::*;

fn usage() -> ! {
    eprintln!("usage: vcheck <ID> [--tier quick|thorough] [--seed N] [--suite NAME] [--scale F] [--replay FILE] [--verif-dir DIR]");
    std::process::exit(2);
}

fn main() {
    let args: Vec<String> = std::env::args().collect();
    if args.len() < 2 {
        usage();
    }
    let id = args[1].clone();
    let mut tier = match std::env::var("VERIF_TIER").ok().as_deref() {
        Some("thorough") => Tier::Thorough,
        _ => Tier::Quick,
    };
    let mut seed: u64 = std::env::var("VERIF_SEED").ok().and_then(|s| s.parse().ok()).unwrap_or(0);
    let mut suite_filter = None;
    let mut scale = 1.0f64;
    let mut replay: Option<String> = None;
    let mut verif_dir = PathBuf::from("/verif");
    let mut i = 2;
    while i < args.len() {
        let need = |i: usize| -> String { args.get(i + 1).cloned().unwrap_or_else(|| usage()) };
        match args[i].as_str() {
            "--tier" => {
                tier = match need(i).as_str() {
                    "quick" => Tier::Quick,
                    "thorough" => Tier::Thorough,
                    _ => usage(),
                };
                i += 1;
            }
            "--seed" => {
                seed = need(i).parse().unwrap_or_else(|_| usage());
                i += 1;
            }
            "--suite" => {
                suite_filter = Some(need(i));
                i += 1;
            }
            "--scale" => {
                scale = need(i).parse().unwrap_or_else(|_| usage());
                i += 1;
            }
            "--replay" => {
                replay = Some(need(i));
                i += 1;
            }
            "--verif-dir" => {
                verif_dir = PathBuf::from(need(i));
                i += 1;
            }
            _ => usage(),
        }
        i += 1;
    }
    let cfg = RunCfg {
        tier,
        seed,
        suite_filter,
        verif_dir,
        scale,
    };
    install_panic_hook();
    match guarded(vharness::selftest::startup) {
        Ok(Ok(())) => {}
        Ok(Err(e)) => {
            println!("INCONCLUSIVE harness self-test failed: {e}");
            std::process::exit(2);
        }
        Err(p) => {
            println!("INCONCLUSIVE harness self-test panicked: {p}");
            std::process::exit(2);
        }
    }
    if id == "selftest" {
        println!("selftest ok");
        return;
    }
    let reg = vharness::props::registry();
    let Some((pid, run, replay_fn)) = reg.into_iter().find(|(p, _, _)| *p == id) else {
        eprintln!("unknown property {id}");
        std::process::exit(2);
    };
    if let Some(file) = replay {
        let body: serde_json::Value = match std::fs::read(&file).ok().and_then(|b| serde_json::from_slice(&b).ok()) {
            Some(v) => v,
            None => {
                println!("INCONCLUSIVE cannot read replay file {file}");
                std::process::exit(2);
            }
        };
        let suite_name = body.get("suite").and_then(|s| s.as_str()).unwrap_or("");
        let Some(suite) = vharness::suites::by_name(suite_name) else {
            println!("INCONCLUSIVE unknown suite in replay file: {suite_name}");
            std::process::exit(2);
        };
        match replay_fn(&cfg, suite, body.get("case").unwrap_or(&serde_json::Value::Null)) {
            Ok(Ok(())) => {
                println!("REPLAY-PASS property={pid} replay={file}");
                std::process::exit(0);
            }
            Ok(Err(f)) => {
                eprintln!("[{pid}] replay fails: {}", f.reason);
                println!("VIOLATION property={pid} replay={file}");
                std::process::exit(1);
            }
            Err(Inconclusive(m)) => {
                println!("INCONCLUSIVE property={pid} {m}");
                std::process::exit(2);
            }
        }
    }
    start_watchdog(pid, 900);
    let t0 = Instant::now();
    let (out, ev) = run(&cfg);
    let code = finish(&cfg, pid, t0, out, ev);
    std::process::exit(code);
}

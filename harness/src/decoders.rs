//! Shared machinery for the decoder properties (C10, C11, C12) and the fuzz
//! targets: valid sample encodings, invalid-encoding generators with an
//! independent validity predicate, and field location inside serde images.

use rand::RngCore;

use crate::fieldmap::{self, Field, FieldKind};
use crate::proto::*;
use crate::refmodel::{self as rm, Grp};
use crate::tape::{TapeRng, TapeSpec};

/// One valid value of each of the 11 decoder types, from honest runs on `tape`.
pub struct Samples {
    pub objs: Vec<Obj>,
}

impl Samples {
    pub fn get(&self, ty: Ty) -> &Obj {
        self.objs
            .iter()
            .find(|o| o.ty == ty)
            .unwrap_or_else(|| panic!("HARNESS-BUG: no sample of {ty:?}"))
    }
}

pub fn samples(s: &dyn Proto, tape: &TapeSpec, fake_login: bool) -> PResult<Samples> {
    let t = |i: u64| tape.derive(i);
    let pw = b"sample password";
    let setup = s.setup_new(&mut t(0).rng());
    let (req, st) = s.client_reg_start(&mut t(1).rng(), pw)?;
    let resp = s.server_reg_start(&setup, &req, b"cred")?;
    let fin = s.client_reg_finish(s.clone_obj(&st), &mut t(2).rng(), pw, &resp, Ids::default(), None)?;
    let rec = s.server_reg_finish(&fin.upload);
    let (lreq, lst) = s.client_login_start(&mut t(3).rng(), pw)?;
    let record = if fake_login { None } else { Some(&rec) };
    let (lresp, sst) = s.server_login_start(&mut t(4).rng(), &setup, record, &lreq, b"cred", None, Ids::default())?;
    // the finalization comes from a real login so that it always exists
    let (lresp_real, _) = s.server_login_start(&mut t(5).rng(), &setup, Some(&rec), &lreq, b"cred", None, Ids::default())?;
    let lf = s.client_login_finish(s.clone_obj(&lst), pw, &lresp_real, None, Ids::default(), None)?;
    Ok(Samples {
        objs: vec![req, resp, fin.upload, lreq, lresp, lf.fin, rec, setup, st, lst, sst],
    })
}

// ------------------------------------------------------------ big integers on byte strings

/// a + b on fixed-length byte strings; None on overflow of the length
pub fn add_bytes(a: &[u8], b: &[u8], little_endian: bool) -> Option<Vec<u8>> {
    assert_eq!(a.len(), b.len(), "HARNESS-BUG: add_bytes lengths");
    let n = a.len();
    let mut out = vec![0u8; n];
    let mut carry = 0u16;
    for k in 0..n {
        let i = if little_endian { k } else { n - 1 - k };
        let s = a[i] as u16 + b[i] as u16 + carry;
        out[i] = (s & 0xff) as u8;
        carry = s >> 8;
    }
    if carry != 0 {
        None
    } else {
        Some(out)
    }
}

fn small(n: usize, v: u8, little_endian: bool) -> Vec<u8> {
    let mut out = vec![0u8; n];
    if little_endian {
        out[0] = v;
    } else {
        out[n - 1] = v;
    }
    out
}

// ------------------------------------------------------------ validity (independent of opaque-ke)

pub fn field_group(m: &Meta, kind: FieldKind) -> Option<Grp> {
    match kind {
        FieldKind::OprfElem | FieldKind::OprfScalar => Some(rm::grp_of_oprf(m.oprf)),
        FieldKind::KePk | FieldKind::KeSk => rm::grp_of_ke(m.ke),
        _ => None,
    }
}

/// Is `b` a valid encoding for a field of this kind, as C11 defines validity
/// (non-identity, on-curve, in-range, canonical; Curve25519: not small order;
/// scalars non-zero and in range)?  Alternative SEC1 tags are NOT judged here.
pub fn valid_field(m: &Meta, kind: FieldKind, b: &[u8]) -> bool {
    match kind {
        FieldKind::OprfElem => rm::grp_of_oprf(m.oprf).valid_elem(b),
        FieldKind::OprfScalar => rm::grp_of_oprf(m.oprf).valid_scalar(b),
        FieldKind::KePk => match rm::grp_of_ke(m.ke) {
            Some(g) => g.valid_elem(b),
            None => b.len() == 32 && rm::x25519_valid_pk(b),
        },
        FieldKind::KeSk => match rm::grp_of_ke(m.ke) {
            Some(g) => g.valid_scalar(b),
            // X25519 private scalars live in [2^254, 2^255): zero and anything with bit 255 set are
            // out of range; whether low bits must already be cleared is not judged here
            None => b.len() == 32 && b.iter().any(|x| *x != 0) && b[31] & 0x80 == 0,
        },
        _ => true,
    }
}

/// (class name, bytes) of invalid encodings for a field, derived from a valid
/// encoding `valid` of the same field.  Every entry is confirmed invalid by
/// `valid_field` before it is returned (entries that happen to be valid are
/// dropped, so generators may over-approximate).
pub fn invalid_encodings(m: &Meta, f: &Field, valid: &[u8], r: &mut TapeRng, extra_random: usize) -> Vec<(String, Vec<u8>)> {
    let mut out: Vec<(String, Vec<u8>)> = Vec::new();
    let n = f.len;
    match f.kind {
        FieldKind::OprfElem | FieldKind::KePk => match field_group(m, f.kind) {
            Some(Grp::Ristretto255) => {
                out.push(("identity".into(), vec![0u8; 32]));
                // s + p: non-canonical field element
                if let Some(v) = add_bytes(valid, &Grp::Ristretto255.field_prime_bytes(), true) {
                    out.push(("non-canonical(s+p)".into(), v));
                }
                out.push(("non-canonical(p)".into(), Grp::Ristretto255.field_prime_bytes()));
                // negative s (low bit set)
                let mut neg = valid.to_vec();
                neg[0] |= 1;
                out.push(("negative-s".into(), neg));
                let mut one = vec![0u8; 32];
                one[0] = 1;
                out.push(("negative-s(1)".into(), one));
                out.push(("all-ff".into(), vec![0xff; 32]));
                // high bit set
                let mut hb = valid.to_vec();
                hb[31] |= 0x80;
                out.push(("bit255-set".into(), hb));
                // not decodable (non-square): search even values upward from a valid one
                let mut cur = valid.to_vec();
                let mut found = 0;
                for _ in 0..64 {
                    cur = add_bytes(&cur, &small(32, 2, true), true).unwrap_or_else(|| vec![0u8; 32]);
                    if !Grp::Ristretto255.valid_elem(&cur) {
                        out.push(("non-square(searched)".into(), cur.clone()));
                        found += 1;
                        if found >= 2 {
                            break;
                        }
                    }
                }
                for i in 0..extra_random {
                    let mut v = vec![0u8; 32];
                    r.fill_bytes(&mut v);
                    out.push((format!("random#{i}"), v));
                }
            }
            Some(g) => {
                // NIST curves, compressed SEC1
                let p = g.field_prime_bytes();
                let mut id = vec![0u8; n];
                out.push(("identity(00..)".into(), id.clone()));
                id[0] = 0x02;
                // x = 0 may or may not be on the curve; validity decides
                out.push(("x=0".into(), id));
                for tag in [0x02u8, 0x03] {
                    let mut v = vec![tag];
                    v.extend_from_slice(&p);
                    out.push((format!("x=p(tag {tag:02x})"), v));
                    if let Some(p1) = add_bytes(&p, &small(p.len(), 1, false), false) {
                        let mut v = vec![tag];
                        v.extend_from_slice(&p1);
                        out.push((format!("x=p+1(tag {tag:02x})"), v));
                    }
                    let mut v = vec![tag];
                    v.extend_from_slice(&vec![0xffu8; n - 1]);
                    out.push((format!("x=ff..(tag {tag:02x})"), v));
                }
                // x + p where representable (P-521 always, others for tiny x only)
                if let Some(xp) = add_bytes(&valid[1..], &p, false) {
                    let mut v = vec![valid[0]];
                    v.extend_from_slice(&xp);
                    out.push(("x+p(non-reduced)".into(), v));
                }
                // off-curve x: search upward from the valid x
                let mut x = valid[1..].to_vec();
                let mut found = 0;
                for _ in 0..64 {
                    x = add_bytes(&x, &small(n - 1, 1, false), false).unwrap_or_else(|| vec![0u8; n - 1]);
                    let mut v = vec![valid[0]];
                    v.extend_from_slice(&x);
                    if !g.valid_elem(&v) {
                        out.push(("off-curve-x(searched)".into(), v));
                        found += 1;
                        if found >= 2 {
                            break;
                        }
                    }
                }
                for i in 0..extra_random {
                    let mut v = vec![0u8; n];
                    r.fill_bytes(&mut v);
                    v[0] = 0x02 | (v[0] & 1);
                    if g == Grp::P521 {
                        v[1] &= 0x01;
                    }
                    out.push((format!("random-x#{i}"), v));
                }
            }
            None => {
                // Curve25519: the small-order u-coordinates in every representable encoding
                let p = {
                    let mut p = [0xffu8; 32];
                    p[0] = 0xed;
                    p[31] = 0x7f;
                    p
                };
                for (i, res) in rm::x25519_small_order_residues().iter().enumerate() {
                    let name = ["0", "1", "p-1", "order8-a", "order8-b"][i];
                    let mut forms: Vec<(String, Vec<u8>)> = vec![(format!("small-order u={name}"), res.to_vec())];
                    if let Some(v) = add_bytes(res, &p, true) {
                        if v[31] & 0x80 == 0 {
                            forms.push((format!("small-order u={name}+p"), v));
                        }
                    }
                    for (nm, v) in forms.clone() {
                        let mut hb = v.clone();
                        hb[31] |= 0x80;
                        forms.push((format!("{nm} (bit255 set)"), hb));
                    }
                    out.extend(forms);
                }
            }
        },
        FieldKind::OprfScalar | FieldKind::KeSk => match field_group(m, f.kind) {
            Some(g) => {
                let le = g.little_endian();
                let order = g.order_bytes();
                out.push(("zero".into(), vec![0u8; n]));
                out.push(("order".into(), order.clone()));
                if let Some(v) = add_bytes(&order, &small(n, 1, le), le) {
                    out.push(("order+1".into(), v));
                }
                out.push(("all-ff".into(), vec![0xffu8; n]));
                if let Some(v) = add_bytes(valid, &order, le) {
                    out.push(("valid+order(non-reduced)".into(), v));
                }
                for i in 0..extra_random {
                    // order + small random
                    let mut d = vec![0u8; n];
                    let mut w = [0u8; 8];
                    r.fill_bytes(&mut w);
                    if le {
                        d[..8].copy_from_slice(&w);
                    } else {
                        d[n - 8..].copy_from_slice(&w);
                    }
                    if let Some(v) = add_bytes(&order, &d, le) {
                        out.push((format!("order+random#{i}"), v));
                    }
                }
            }
            None => {
                // Curve25519 private keys: the zero scalar and values >= 2^255
                out.push(("zero".into(), vec![0u8; 32]));
                let mut hb = valid.to_vec();
                hb[31] |= 0x80;
                out.push(("bit255-set(>=2^255)".into(), hb));
                let mut top = vec![0u8; 32];
                top[31] = 0xc0;
                out.push(("2^255+2^254".into(), top));
                let mut ff = vec![0xffu8; 32];
                ff[0] = 0xf8;
                out.push(("f8ff..ff(>=2^255)".into(), ff));
            }
        },
        _ => {}
    }
    out.retain(|(_, v)| v.len() == n && !valid_field(m, f.kind, v));
    // dedupe by bytes
    let mut seen = std::collections::HashSet::new();
    out.retain(|(_, v)| seen.insert(v.clone()));
    out
}

// ------------------------------------------------------------ serde images

/// Replace the (unique) occurrence of `old` by `new` in a bincode image.
pub fn replace_in_bincode(image: &[u8], old: &[u8], new: &[u8]) -> Option<Vec<u8>> {
    assert_eq!(old.len(), new.len(), "HARNESS-BUG: replace lengths");
    let pos: Vec<usize> = (0..=image.len().saturating_sub(old.len()))
        .filter(|i| &image[*i..*i + old.len()] == old)
        .collect();
    if pos.is_empty() {
        return None;
    }
    // several occurrences (e.g. the blinded element kept twice): replace all of them
    let mut v = image.to_vec();
    for p in pos {
        v[p..p + old.len()].copy_from_slice(new);
    }
    Some(v)
}

fn json_frag(b: &[u8]) -> String {
    let mut s = String::from("[");
    for (i, x) in b.iter().enumerate() {
        if i > 0 {
            s.push(',');
        }
        s.push_str(&x.to_string());
    }
    s.push(']');
    s
}

/// Replace the array holding `old` by one holding `new` in a JSON image.
pub fn replace_in_json(image: &[u8], old: &[u8], new: &[u8]) -> Option<Vec<u8>> {
    let text = std::str::from_utf8(image).ok()?;
    let of = json_frag(old);
    if !text.contains(&of) {
        return None;
    }
    Some(text.replace(&of, &json_frag(new)).into_bytes())
}

/// group-element / scalar fields of a type as they occur in its *serde* images:
/// the native fields plus values that only the serde form stores
pub fn serde_fields(s: &dyn Proto, o: &Obj) -> Vec<(String, FieldKind, Vec<u8>)> {
    let m = s.meta();
    let native = s.ser(Codec::Native, o);
    let mut v: Vec<(String, FieldKind, Vec<u8>)> = fieldmap::fields(&m, o.ty)
        .into_iter()
        .filter(|f| f.kind.is_group_elem() || f.kind.is_scalar())
        .map(|f| (f.name.to_string(), f.kind, native[f.off..f.off + f.len].to_vec()))
        .collect();
    if o.ty == Ty::ServerSetup {
        // the derived serde form stores the public keys next to the private ones
        let pk = s.setup_public_key(o);
        v.push(("serde:keypair.pk".into(), FieldKind::KePk, pk));
        let fake_sk = fieldmap::slice(&m, Ty::ServerSetup, "fake_sk", &native).to_vec();
        if let Some(fpk) = rm::ke_public_key(m.ke, &fake_sk) {
            v.push(("serde:fake_keypair.pk".into(), FieldKind::KePk, fpk));
        }
    }
    v
}

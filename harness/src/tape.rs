//! `TapeRng`: the only entropy source any checked operation ever sees.
//!
//! The byte stream is ChaCha20 keyed by a 32-byte seed.  A tape can be
//! * plain: `TapeRng::new(seed)`
//! * spliced: the first `n` bytes come from stream `a`, everything after from
//!   stream `b` ("tapes that differ only after byte n")
//! * prefixed: the first `k` *calls* return all-`fill` bytes (forces the
//!   rejection / zero-retry branches of every sampler); afterwards the stream
//!   continues normally so every rejection sampler terminates.
//!
//! Every call is recorded (length and the bytes handed out) so oracles can
//! match protocol values to draws order-agnostically.

use rand::{CryptoRng, RngCore, SeedableRng};
use rand_chacha::ChaCha20Rng;

#[derive(Clone, Debug, PartialEq, Eq)]
pub struct Draw {
    pub bytes: Vec<u8>,
}

#[derive(Clone, Debug, PartialEq, Eq, Hash)]
pub struct TapeSpec {
    pub seed: [u8; 32],
    /// `Some((n, seed_b))`: bytes `0..n` from `seed`, the rest from `seed_b`.
    pub splice: Option<(usize, [u8; 32])>,
    /// the first `prefix_calls` calls are filled with `prefix_fill`
    pub prefix_calls: u8,
    pub prefix_fill: u8,
}

impl TapeSpec {
    pub fn plain(seed: [u8; 32]) -> Self {
        TapeSpec {
            seed,
            splice: None,
            prefix_calls: 0,
            prefix_fill: 0,
        }
    }
    pub fn from_u64(x: u64) -> Self {
        let mut seed = [0u8; 32];
        seed[..8].copy_from_slice(&x.to_le_bytes());
        seed[8] = 0xA5;
        Self::plain(seed)
    }
    /// derive a sub-tape (independent stream) labelled `label`
    pub fn derive(&self, label: u64) -> Self {
        let mut rng = ChaCha20Rng::from_seed(self.seed);
        rng.set_stream(label.wrapping_add(1));
        let mut seed = [0u8; 32];
        rng.fill_bytes(&mut seed);
        TapeSpec {
            seed,
            splice: None,
            prefix_calls: self.prefix_calls,
            prefix_fill: self.prefix_fill,
        }
    }
    pub fn rng(&self) -> TapeRng {
        TapeRng::from_spec(self)
    }
    pub fn to_json(&self) -> serde_json::Value {
        serde_json::json!({
            "seed": hex::encode(self.seed),
            "splice": self.splice.map(|(n, s)| serde_json::json!({"n": n, "seed_b": hex::encode(s)})),
            "prefix_calls": self.prefix_calls,
            "prefix_fill": self.prefix_fill,
        })
    }
    pub fn from_json(v: &serde_json::Value) -> Option<Self> {
        let mut seed = [0u8; 32];
        hex::decode_to_slice(v.get("seed")?.as_str()?, &mut seed).ok()?;
        let splice = match v.get("splice") {
            Some(s) if !s.is_null() => {
                let mut sb = [0u8; 32];
                hex::decode_to_slice(s.get("seed_b")?.as_str()?, &mut sb).ok()?;
                Some((s.get("n")?.as_u64()? as usize, sb))
            }
            _ => None,
        };
        Some(TapeSpec {
            seed,
            splice,
            prefix_calls: v.get("prefix_calls")?.as_u64()? as u8,
            prefix_fill: v.get("prefix_fill")?.as_u64()? as u8,
        })
    }
}

#[derive(Clone)]
pub struct TapeRng {
    a: ChaCha20Rng,
    b: Option<(usize, ChaCha20Rng)>,
    pos: usize,
    prefix_calls: u8,
    prefix_fill: u8,
    ncalls: usize,
    pub draws: Vec<Draw>,
    /// fault injection: the n-th call (1-based) fails like a failing OS RNG:
    /// `try_fill_bytes` returns an error, `fill_bytes` panics
    pub fail_at_call: Option<usize>,
}

pub const RNG_FAILURE_MSG: &str = "TapeRng: injected RNG failure";

impl TapeRng {
    pub fn new(seed: [u8; 32]) -> Self {
        Self::from_spec(&TapeSpec::plain(seed))
    }
    pub fn from_spec(s: &TapeSpec) -> Self {
        TapeRng {
            a: ChaCha20Rng::from_seed(s.seed),
            b: s.splice.map(|(n, sb)| (n, ChaCha20Rng::from_seed(sb))),
            pos: 0,
            prefix_calls: s.prefix_calls,
            prefix_fill: s.prefix_fill,
            ncalls: 0,
            draws: Vec::new(),
            fail_at_call: None,
        }
    }
    /// number of bytes handed out so far (constant-prefix calls included)
    pub fn consumed(&self) -> usize {
        self.pos
    }
    pub fn ncalls(&self) -> usize {
        self.ncalls
    }
    /// all bytes handed out, concatenated
    pub fn all_bytes(&self) -> Vec<u8> {
        self.draws.iter().flat_map(|d| d.bytes.iter().copied()).collect()
    }
    /// was `needle` handed out by this RNG?  True if it is one recorded draw or a run of
    /// consecutive bytes of the stream (so an implementation that fetches a value with several
    /// smaller calls, or one larger call, is still recognised)
    pub fn has_draw(&self, needle: &[u8]) -> bool {
        self.find(needle).is_some()
    }
    /// offset of `needle` in the stream of bytes handed out (whole draws first)
    pub fn find(&self, needle: &[u8]) -> Option<usize> {
        if needle.is_empty() {
            return None;
        }
        let mut off = 0;
        for d in &self.draws {
            if d.bytes == needle {
                return Some(off);
            }
            off += d.bytes.len();
        }
        let all = self.all_bytes();
        if all.len() < needle.len() {
            return None;
        }
        (0..=all.len() - needle.len()).find(|i| &all[*i..*i + needle.len()] == needle)
    }
    /// candidate `len`-byte windows of the stream, most plausible first: the draws of exactly
    /// that length, then runs starting at each draw boundary, then every other offset (so an
    /// implementation that fetches several values with one larger call is still recognised)
    pub fn windows(&self, len: usize) -> Vec<(usize, Vec<u8>)> {
        let mut v = Vec::new();
        let mut seen = std::collections::HashSet::new();
        let mut off = 0;
        for d in &self.draws {
            if d.bytes.len() == len && seen.insert(off) {
                v.push((off, d.bytes.clone()));
            }
            off += d.bytes.len();
        }
        let all = self.all_bytes();
        let mut off = 0;
        for d in &self.draws {
            if off + len <= all.len() && seen.insert(off) {
                v.push((off, all[off..off + len].to_vec()));
            }
            off += d.bytes.len();
        }
        // every other offset, nearest to a draw start first (an implementation that fetches
        // several values with one larger request is still recognised); the cap only guards
        // against pathological tapes
        if all.len() >= len {
            let starts: Vec<usize> = {
                let mut o = 0;
                self.draws
                    .iter()
                    .map(|d| {
                        let s = o;
                        o += d.bytes.len();
                        s
                    })
                    .collect()
            };
            let dist = |o: &usize| starts.iter().filter(|s| **s <= *o).map(|s| o - s).min().unwrap_or(*o);
            let mut extra: Vec<usize> = (0..=all.len() - len).filter(|o| !seen.contains(o)).collect();
            extra.sort_by_key(dist);
            for off in extra.into_iter().take(65536) {
                v.push((off, all[off..off + len].to_vec()));
            }
        }
        v
    }

    fn raw_fill(&mut self, dest: &mut [u8]) {
        match &mut self.b {
            None => self.a.fill_bytes(dest),
            Some((n, b)) => {
                let from_a = n.saturating_sub(self.pos).min(dest.len());
                // byte-granular so that the stream position is independent of
                // how the caller chunks its requests
                for d in dest[..from_a].iter_mut() {
                    let mut one = [0u8; 1];
                    self.a.fill_bytes(&mut one);
                    *d = one[0];
                }
                for d in dest[from_a..].iter_mut() {
                    let mut one = [0u8; 1];
                    b.fill_bytes(&mut one);
                    *d = one[0];
                }
            }
        }
    }
}

impl RngCore for TapeRng {
    fn next_u32(&mut self) -> u32 {
        let mut b = [0u8; 4];
        self.fill_bytes(&mut b);
        u32::from_le_bytes(b)
    }
    fn next_u64(&mut self) -> u64 {
        let mut b = [0u8; 8];
        self.fill_bytes(&mut b);
        u64::from_le_bytes(b)
    }
    fn fill_bytes(&mut self, dest: &mut [u8]) {
        if self.fail_at_call == Some(self.ncalls + 1) {
            self.ncalls += 1;
            panic!("{}", RNG_FAILURE_MSG);
        }
        if (self.ncalls as u64) < self.prefix_calls as u64 {
            for d in dest.iter_mut() {
                *d = self.prefix_fill;
            }
        } else if self.b.is_some() {
            self.raw_fill(dest);
        } else {
            // plain tape: byte-granular too, for the same reason
            for d in dest.iter_mut() {
                let mut one = [0u8; 1];
                self.a.fill_bytes(&mut one);
                *d = one[0];
            }
        }
        self.pos += dest.len();
        self.ncalls += 1;
        self.draws.push(Draw {
            bytes: dest.to_vec(),
        });
    }
    fn try_fill_bytes(&mut self, dest: &mut [u8]) -> Result<(), rand::Error> {
        if self.fail_at_call == Some(self.ncalls + 1) {
            self.ncalls += 1;
            return Err(rand::Error::from(core::num::NonZeroU32::new(rand::Error::CUSTOM_START + 7).unwrap()));
        }
        self.fill_bytes(dest);
        Ok(())
    }
}

impl CryptoRng for TapeRng {}

//! Driving properties over suites with proptest, collecting evidence, writing
//! replay files, and turning results into the exit-code contract.

use std::collections::hash_map::DefaultHasher;
use std::collections::{BTreeMap, HashSet};
use std::hash::{Hash, Hasher};
use std::panic::{catch_unwind, AssertUnwindSafe};
use std::path::PathBuf;
use std::sync::atomic::{AtomicU64, Ordering};
use std::sync::Mutex;
use std::time::Instant;

use proptest::strategy::Strategy;
use proptest::test_runner::{Config, RngAlgorithm, RngSeed, TestCaseError, TestError, TestRunner};
use serde::de::DeserializeOwned;
use serde::Serialize;
use serde_json::{json, Value};

use crate::known::KnownFindings;
use crate::proto::{Cost, Proto};

#[derive(Clone, Copy, Debug, PartialEq, Eq)]
pub enum Tier {
    Quick,
    Thorough,
}

impl Tier {
    pub fn name(self) -> &'static str {
        match self {
            Tier::Quick => "quick",
            Tier::Thorough => "thorough",
        }
    }
}

#[derive(Clone, Debug)]
pub struct RunCfg {
    pub tier: Tier,
    pub seed: u64,
    pub suite_filter: Option<String>,
    pub verif_dir: PathBuf,
    /// scale factor applied to case budgets (1.0 = as designed)
    pub scale: f64,
}

/// cases per suite by cost class: (fast, medium, slow)
#[derive(Clone, Copy, Debug)]
pub struct Budget {
    pub quick: (u32, u32, u32),
    pub thorough: (u32, u32, u32),
    /// proptest shrink iterations after a failure (each re-runs the whole case)
    pub shrink: u32,
}

impl Budget {
    pub fn cases(&self, cfg: &RunCfg, cost: Cost) -> u32 {
        let t = match cfg.tier {
            Tier::Quick => self.quick,
            Tier::Thorough => self.thorough,
        };
        let n = match cost {
            Cost::Fast => t.0,
            Cost::Medium => t.1,
            Cost::Slow => t.2,
        };
        (((n as f64) * cfg.scale).ceil() as u32).max(1)
    }
}

pub static HEARTBEAT: AtomicU64 = AtomicU64::new(0);

pub fn beat() {
    HEARTBEAT.fetch_add(1, Ordering::Relaxed);
}

/// A violation: what failed, in which suite, and the replayable case.
#[derive(Clone, Debug)]
pub struct Violation {
    pub suite: String,
    pub reason: String,
    pub case: Value,
}

/// Why a case failed inside the property closure.
#[derive(Clone, Debug)]
pub struct Fail {
    pub reason: String,
    /// signature for matching against known findings (may be empty)
    pub signature: String,
}

impl Fail {
    pub fn new(reason: impl Into<String>) -> Self {
        Fail {
            reason: reason.into(),
            signature: String::new(),
        }
    }
    pub fn sig(signature: impl Into<String>, reason: impl Into<String>) -> Self {
        Fail {
            reason: reason.into(),
            signature: signature.into(),
        }
    }
}

pub type CaseResult = Result<(), Fail>;

#[macro_export]
macro_rules! ensure {
    ($cond:expr, $($arg:tt)*) => {
        if !($cond) {
            return Err($crate::runner::Fail::new(format!($($arg)*)));
        }
    };
}

#[macro_export]
macro_rules! ensure_eq {
    ($a:expr, $b:expr, $($arg:tt)*) => {
        match (&$a, &$b) {
            (__a, __b) => {
                if *__a != *__b {
                    return Err($crate::runner::Fail::new(format!(
                        "{}: left={} right={}",
                        format!($($arg)*),
                        $crate::runner::show(__a),
                        $crate::runner::show(__b)
                    )));
                }
            }
        }
    };
}

pub fn show<T: std::fmt::Debug>(t: &T) -> String {
    let s = format!("{t:?}");
    if s.len() > 300 {
        format!("{}…({} chars)", &s[..300], s.len())
    } else {
        s
    }
}

/// Per-suite statistics; merged across suites at the end.
#[derive(Default, Debug)]
pub struct Stats {
    pub evaluations: u64,
    pub cases: u64,
    pub nontrivial: HashSet<u64>,
    /// items counted as distinct by construction: (distinct case hash, number
    /// of pairwise different non-trivial sub-items enumerated inside that case)
    pub bulk_cases: HashSet<u64>,
    pub bulk: u64,
    pub labels: BTreeMap<String, u64>,
    pub samples: Vec<Value>,
    pub known_hits: BTreeMap<String, u64>,
    frozen: bool,
}

impl Stats {
    pub fn eval(&mut self, n: u64) {
        if !self.frozen {
            self.evaluations += n;
        }
    }
    pub fn label(&mut self, l: impl Into<String>) {
        if !self.frozen {
            *self.labels.entry(l.into()).or_insert(0) += 1;
        }
    }
    pub fn label_n(&mut self, l: impl Into<String>, n: u64) {
        if !self.frozen {
            *self.labels.entry(l.into()).or_insert(0) += n;
        }
    }
    /// record a distinct non-trivial case by the hash of its canonical form
    pub fn nontrivial<H: Hash>(&mut self, h: &H) {
        if !self.frozen {
            let mut s = DefaultHasher::new();
            h.hash(&mut s);
            self.nontrivial.insert(s.finish());
        }
    }
    /// `n` pairwise distinct (deduplicated by the caller) non-trivial sub-items
    /// enumerated inside the case with canonical hash `case_hash`; counted once
    /// per distinct case
    pub fn nontrivial_bulk(&mut self, case_hash: u64, n: u64) {
        if !self.frozen && self.bulk_cases.insert(case_hash) {
            self.bulk += n;
        }
    }
    pub fn distinct_nontrivial(&self) -> u64 {
        self.nontrivial.len() as u64 + self.bulk
    }
    pub fn sample(&mut self, v: impl FnOnce() -> Value) {
        if !self.frozen && self.samples.len() < 3 {
            self.samples.push(v());
        }
    }
    pub fn known_hit(&mut self, sig: &str) {
        if !self.frozen {
            *self.known_hits.entry(sig.to_string()).or_insert(0) += 1;
        }
    }
    pub fn merge(&mut self, o: Stats) {
        self.evaluations += o.evaluations;
        self.cases += o.cases;
        self.nontrivial.extend(o.nontrivial);
        for h in o.bulk_cases {
            self.bulk_cases.insert(h);
        }
        self.bulk += o.bulk;
        for (k, v) in o.labels {
            *self.labels.entry(k).or_insert(0) += v;
        }
        for s in o.samples {
            if self.samples.len() < 8 {
                self.samples.push(s);
            }
        }
        for (k, v) in o.known_hits {
            *self.known_hits.entry(k).or_insert(0) += v;
        }
    }
}

pub fn hash_of<H: Hash>(h: &H) -> u64 {
    let mut s = DefaultHasher::new();
    h.hash(&mut s);
    s.finish()
}

fn seed_for(seed: u64, prop: &str, suite: &str, salt: u64) -> u64 {
    hash_of(&(seed, prop, suite, salt))
}

thread_local! {
    static LAST_PANIC: std::cell::RefCell<Option<String>> = const { std::cell::RefCell::new(None) };
}

pub fn install_panic_hook() {
    std::panic::set_hook(Box::new(|info| {
        let msg = if let Some(s) = info.payload().downcast_ref::<&str>() {
            s.to_string()
        } else if let Some(s) = info.payload().downcast_ref::<String>() {
            s.clone()
        } else {
            "<non-string panic payload>".to_string()
        };
        let loc = info
            .location()
            .map(|l| format!("{}:{}", l.file(), l.line()))
            .unwrap_or_default();
        LAST_PANIC.with(|p| *p.borrow_mut() = Some(format!("{msg} @ {loc}")));
    }));
}

pub fn take_last_panic() -> Option<String> {
    LAST_PANIC.with(|p| p.borrow_mut().take())
}

/// Run `f` catching panics; returns Err(message @ location) on panic.
pub fn guarded<T>(f: impl FnOnce() -> T) -> Result<T, String> {
    let _ = take_last_panic();
    match catch_unwind(AssertUnwindSafe(f)) {
        Ok(v) => Ok(v),
        Err(_) => Err(take_last_panic().unwrap_or_else(|| "<panic>".to_string())),
    }
}

/// Marker error for things that are not verdicts (exit 2).
#[derive(Debug)]
pub struct Inconclusive(pub String);

pub struct Outcome {
    pub stats: Stats,
    pub violations: Vec<Violation>,
    pub inconclusive: Vec<String>,
    pub per_suite: BTreeMap<String, Value>,
}

/// Drive one property over a set of suites.  For each suite, `cases` generated
/// cases are evaluated by `check`; on failure proptest shrinks and the minimal
/// case is recorded.  Suites run on separate threads.
pub fn run_property<C, S, F>(
    cfg: &RunCfg,
    prop: &'static str,
    suites: Vec<&'static dyn Proto>,
    budget: Budget,
    strategy: impl Fn(&'static dyn Proto) -> S + Sync,
    check: F,
) -> Outcome
where
    C: Clone + std::fmt::Debug + Serialize + Send + 'static,
    S: Strategy<Value = C>,
    F: Fn(&'static dyn Proto, &C, &mut Stats, &KnownFindings) -> CaseResult + Sync,
{
    let known = KnownFindings::load(&cfg.verif_dir);
    let results: Mutex<Vec<(String, Stats, Option<Violation>, Option<String>, f64)>> = Mutex::new(Vec::new());
    let suites: Vec<_> = suites
        .into_iter()
        .filter(|s| match &cfg.suite_filter {
            Some(f) => s.meta().name == f,
            None => true,
        })
        .collect();
    // slow suites first
    let mut order = suites.clone();
    order.sort_by_key(|s| std::cmp::Reverse(s.meta().cost()));
    std::thread::scope(|scope| {
        for s in order {
            let results = &results;
            let strategy = &strategy;
            let check = &check;
            let known = &known;
            scope.spawn(move || {
                let t0 = Instant::now();
                let name = s.meta().name.to_string();
                let cases = budget.cases(cfg, s.meta().cost());
                let stats = std::cell::RefCell::new(Stats::default());
                let mut config = Config::default();
                config.cases = cases;
                config.failure_persistence = None;
                config.rng_algorithm = RngAlgorithm::ChaCha;
                config.rng_seed = RngSeed::Fixed(seed_for(cfg.seed, prop, &name, 0));
                config.max_shrink_iters = budget.shrink;
                config.max_global_rejects = 1;
                config.max_local_rejects = 1;
                config.verbose = 0;
                let mut runner = TestRunner::new(config);
                let strat = strategy(s);
                let harness_bug: std::cell::RefCell<Option<String>> = std::cell::RefCell::new(None);
                let res = runner.run(&strat, |case| {
                    beat();
                    let mut stats = stats.borrow_mut();
                    let r = guarded(|| check(s, &case, &mut stats, known));
                    let r = match r {
                        Ok(r) => r,
                        Err(p) => {
                            if p.contains("HARNESS-BUG") {
                                *harness_bug.borrow_mut() = Some(p.clone());
                            }
                            Err(Fail::new(format!("panic: {p}")))
                        }
                    };
                    match r {
                        Ok(()) => {
                            if !stats.frozen {
                                stats.cases += 1;
                            }
                            Ok(())
                        }
                        Err(f) => {
                            // stop counting: the closure re-runs while shrinking
                            stats.frozen = true;
                            Err(TestCaseError::fail(f.reason))
                        }
                    }
                });
                let stats = stats.into_inner();
                let harness_bug = harness_bug.into_inner();
                let mut viol = None;
                let mut inconc = harness_bug;
                match res {
                    Ok(()) => {}
                    Err(TestError::Fail(reason, case)) => {
                        if inconc.is_none() {
                            viol = Some(Violation {
                                suite: name.clone(),
                                reason: reason.message().to_string(),
                                case: serde_json::to_value(&case).unwrap_or(Value::Null),
                            });
                        }
                    }
                    Err(TestError::Abort(reason)) => {
                        inconc = Some(format!("proptest aborted: {}", reason.message()));
                    }
                }
                results.lock().unwrap().push((name, stats, viol, inconc, t0.elapsed().as_secs_f64()));
            });
        }
    });
    let mut out = Outcome {
        stats: Stats::default(),
        violations: vec![],
        inconclusive: vec![],
        per_suite: BTreeMap::new(),
    };
    let mut results = results.into_inner().unwrap();
    results.sort_by(|a, b| a.0.cmp(&b.0));
    for (name, stats, viol, inconc, secs) in results {
        out.per_suite.insert(
            name.clone(),
            json!({"cases": stats.cases, "evaluations": stats.evaluations,
                   "distinct_nontrivial": stats.distinct_nontrivial(), "wall_s": (secs*100.0).round()/100.0}),
        );
        out.stats.merge(stats);
        if let Some(v) = viol {
            out.violations.push(v);
        }
        if let Some(i) = inconc {
            out.inconclusive.push(format!("{name}: {i}"));
        }
    }
    out
}

/// Re-execute one saved case without proptest.
pub fn replay_case<C, F>(
    cfg: &RunCfg,
    suite: &'static dyn Proto,
    case: &Value,
    check: F,
) -> Result<CaseResult, Inconclusive>
where
    C: DeserializeOwned,
    F: Fn(&'static dyn Proto, &C, &mut Stats, &KnownFindings) -> CaseResult,
{
    let known = KnownFindings::load(&cfg.verif_dir);
    let c: C = serde_json::from_value(case.clone())
        .map_err(|e| Inconclusive(format!("cannot parse replay case: {e}")))?;
    let mut stats = Stats::default();
    match guarded(|| check(suite, &c, &mut stats, &known)) {
        Ok(r) => Ok(r),
        Err(p) if p.contains("HARNESS-BUG") => Err(Inconclusive(p)),
        Err(p) => Ok(Err(Fail::new(format!("panic: {p}")))),
    }
}

pub struct EvidenceExtra {
    pub rule: String,
    pub assumptions: Vec<String>,
    pub exhaustive: Option<bool>,
    pub extra: BTreeMap<String, Value>,
}

/// Finish a check: write evidence and replay files, print the verdict lines,
/// and return the process exit code.
pub fn finish(
    cfg: &RunCfg,
    prop: &'static str,
    t0: Instant,
    out: Outcome,
    ev: EvidenceExtra,
) -> i32 {
    let known = KnownFindings::load(&cfg.verif_dir);
    let wall = t0.elapsed().as_secs_f64();
    // replay files
    let mut lines = Vec::new();
    let replay_dir = cfg.verif_dir.join("replays");
    let _ = std::fs::create_dir_all(&replay_dir);
    for v in out.violations.iter().take(6) {
        let h = hash_of(&(v.suite.as_str(), v.case.to_string()));
        let path = replay_dir.join(format!(
            "{}-{}-{:016x}.json",
            prop,
            v.suite.replace(['/', ':'], "_"),
            h
        ));
        let body = json!({"property": prop, "suite": v.suite, "reason": v.reason, "case": v.case,
                          "seed": cfg.seed, "tier": cfg.tier.name()});
        let _ = std::fs::write(&path, serde_json::to_vec_pretty(&body).unwrap());
        lines.push(format!("VIOLATION property={} replay={}", prop, path.display()));
        eprintln!("[{}] violation in suite {}: {}", prop, v.suite, v.reason);
    }
    // known-finding lines (open findings of this property)
    for kf in known.open_for(prop) {
        println!(
            "KNOWN-FINDING: property={} {} (hits this run: {})",
            prop,
            kf.description,
            out.stats.known_hits.get(&kf.signature).copied().unwrap_or(0)
        );
    }
    let mut coverage = serde_json::Map::new();
    coverage.insert("evaluations".into(), json!(out.stats.evaluations));
    coverage.insert("cases".into(), json!(out.stats.cases));
    coverage.insert("distinct_nontrivial".into(), json!(out.stats.distinct_nontrivial()));
    coverage.insert("rule".into(), json!(ev.rule));
    coverage.insert("samples".into(), json!(out.stats.samples));
    coverage.insert("labels".into(), json!(out.stats.labels));
    coverage.insert("per_suite".into(), json!(out.per_suite));
    coverage.insert("known_finding_hits_excluded".into(), json!(out.stats.known_hits));
    if let Some(e) = ev.exhaustive {
        coverage.insert("exhaustive".into(), json!(e));
    }
    for (k, v) in ev.extra {
        coverage.insert(k, v);
    }
    let evidence = json!({
        "property_id": prop,
        "tier": cfg.tier.name(),
        "seed": cfg.seed,
        "level": "exploration",
        "coverage": Value::Object(coverage),
        "assumptions": ev.assumptions,
        "wall_s": (wall * 100.0).round() / 100.0,
        "violations": out.violations.len(),
    });
    let evdir = cfg.verif_dir.join("evidence");
    let _ = std::fs::create_dir_all(&evdir);
    let evpath = evdir.join(format!("{prop}.json"));
    if let Err(e) = std::fs::write(&evpath, serde_json::to_vec_pretty(&evidence).unwrap()) {
        eprintln!("cannot write evidence {}: {e}", evpath.display());
    }
    if !out.inconclusive.is_empty() {
        for i in &out.inconclusive {
            println!("INCONCLUSIVE property={prop} {i}");
        }
        return 2;
    }
    if !lines.is_empty() {
        for l in lines {
            println!("{l}");
        }
        return 1;
    }
    println!(
        "OK property={} tier={} seed={} cases={} evaluations={} distinct_nontrivial={} wall_s={:.1}",
        prop,
        cfg.tier.name(),
        cfg.seed,
        out.stats.cases,
        out.stats.evaluations,
        out.stats.distinct_nontrivial(),
        wall
    );
    0
}

/// Watchdog: if no case completes for `secs` seconds, exit 2 (inconclusive).
pub fn start_watchdog(prop: &'static str, secs: u64) {
    std::thread::spawn(move || {
        let mut last = HEARTBEAT.load(Ordering::Relaxed);
        let mut idle = 0u64;
        loop {
            std::thread::sleep(std::time::Duration::from_secs(5));
            let now = HEARTBEAT.load(Ordering::Relaxed);
            if now == last {
                idle += 5;
                if idle >= secs {
                    println!("INCONCLUSIVE property={prop} watchdog: no progress for {secs}s");
                    std::process::exit(2);
                }
            } else {
                idle = 0;
                last = now;
            }
        }
    });
}

//! Start-up self-checks: harness facts that every property relies on.  A failure
//! here is a harness/oracle error (exit 2), never a violation.

use crate::proto::*;
use crate::tape::TapeSpec;

pub fn startup() -> Result<(), String> {
    // field map lengths agree with real encodings
    for s in crate::suites::all_suites() {
        let m = s.meta();
        let mut rng = TapeSpec::from_u64(7).rng();
        let setup = s.setup_new(&mut rng);
        let (req, st) = s.client_reg_start(&mut rng, b"pw").map_err(|e| format!("{e:?}"))?;
        let resp = s.server_reg_start(&setup, &req, b"c").map_err(|e| format!("{e:?}"))?;
        let fin = s
            .client_reg_finish(s.clone_obj(&st), &mut rng, b"pw", &resp, Ids::default(), None)
            .map_err(|e| format!("{e:?}"))?;
        let rec = s.server_reg_finish(&fin.upload);
        let (lreq, lst) = s.client_login_start(&mut rng, b"pw").map_err(|e| format!("{e:?}"))?;
        let (lresp, sst) = s
            .server_login_start(&mut rng, &setup, Some(&rec), &lreq, b"c", None, Ids::default())
            .map_err(|e| format!("{e:?}"))?;
        let lf = s
            .client_login_finish(s.clone_obj(&lst), b"pw", &lresp, None, Ids::default(), None)
            .map_err(|e| format!("{e:?}"))?;
        for o in [&req, &st, &resp, &fin.upload, &rec, &lreq, &lst, &lresp, &sst, &lf.fin, &setup] {
            let n = s.ser(Codec::Native, o).len();
            if n != m.len_of(o.ty) {
                return Err(format!(
                    "field map of {:?} for {} says {} bytes, encoding has {}",
                    o.ty,
                    m.name,
                    m.len_of(o.ty),
                    n
                ));
            }
        }
    }
    crate::refmodel::selftest()?;
    Ok(())
}

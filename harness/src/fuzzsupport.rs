//! Entry functions of the coverage-guided fuzz targets.  They live in the
//! harness library so that (a) the libFuzzer targets, (b) the stable `vcheck`
//! corpus replay (quick tier) and (c) crash confirmation on the production
//! profile all run exactly the same oracle.

use std::sync::OnceLock;

use crate::decoders;
use crate::fieldmap;
use crate::ksf::{self, KsfSpec};
use crate::props::c10::strict_oracle;
use crate::proto::*;
use crate::tape::TapeSpec;

fn suites() -> &'static Vec<&'static dyn Proto> {
    static S: OnceLock<Vec<&'static dyn Proto>> = OnceLock::new();
    S.get_or_init(crate::suites::suites20)
}

/// `data = [suite, type, codec, payload...]`
/// Oracle: no panic (C12); native: accepted => exact length and re-encodes to
/// itself (C10); any codec: every group-element / scalar field of an accepted
/// value is valid by the independent predicate (C11).
pub fn decoders_target(data: &[u8]) -> Result<(), String> {
    if data.len() < 3 {
        return Ok(());
    }
    let ss = suites();
    let s = ss[data[0] as usize % ss.len()];
    let ty = ALL_TYS[data[1] as usize % ALL_TYS.len()];
    let codec = CODECS[data[2] as usize % 3];
    let payload = &data[3..];
    let m = s.meta();
    let obj = if codec == Codec::Native && DECODERS11.contains(&ty) {
        match strict_oracle(s, ty, payload, m.len_of(ty)) {
            Err((sig, msg)) => return Err(format!("C10 {sig}: {msg}")),
            Ok(false) => return Ok(()),
            Ok(true) => s.de(codec, ty, payload).ok(),
        }
    } else {
        s.de(codec, ty, payload).ok()
    };
    let Some(obj) = obj else { return Ok(()) };
    // C11 on whatever was accepted
    let native = s.ser(Codec::Native, &obj);
    for f in fieldmap::fields(&m, ty) {
        if f.kind.is_group_elem() || f.kind.is_scalar() {
            let b = &native[f.off..f.off + f.len];
            if !decoders::valid_field(&m, f.kind, b) {
                return Err(format!(
                    "C11 {} ({codec:?} decoder, suite {}) accepted an invalid {:?} in field {}: {}",
                    ty.name(),
                    m.name,
                    f.kind,
                    f.name,
                    hex::encode(b)
                ));
            }
        }
    }
    // accepted values re-encode and decode again to the same thing through every codec
    for cd in CODECS {
        let img = s.ser(cd, &obj);
        match s.de(cd, ty, &img) {
            Ok(o2) => {
                if s.ser(Codec::Native, &o2) != native {
                    return Err(format!("C13 {}: {cd:?} round trip of an accepted value changes it", ty.name()));
                }
            }
            Err(e) => return Err(format!("C13 {}: {cd:?} image of an accepted value does not decode: {e:?}", ty.name())),
        }
    }
    Ok(())
}

struct Session {
    state: Obj,
    pw: Vec<u8>,
    genuine: Vec<Vec<u8>>,
}

fn session(i: usize) -> &'static Session {
    static S: OnceLock<Vec<Session>> = OnceLock::new();
    &S.get_or_init(|| {
        ksf::set_default_spec(KsfSpec::Identity);
        suites()
            .iter()
            .enumerate()
            .map(|(n, s)| {
                let t = |k: u64| TapeSpec::from_u64(0xF00D + n as u64).derive(k);
                let pw = b"fuzz password".to_vec();
                let setup = s.setup_new(&mut t(0).rng());
                let reg = crate::flow::register(*s, &setup, &pw, b"cred", Ids::default(), None, &t(1), &t(2))
                    .expect("HARNESS-BUG: fixture registration");
                let (req, state) = s.client_login_start(&mut t(3).rng(), &pw).expect("HARNESS-BUG: fixture login start");
                let mut genuine = Vec::new();
                for k in 0..2 {
                    let (resp, _) = s
                        .server_login_start(&mut t(4 + k).rng(), &setup, Some(&reg.record), &req, b"cred", None, Ids::default())
                        .expect("HARNESS-BUG: fixture server start");
                    genuine.push(s.ser(Codec::Native, &resp));
                }
                Session { state, pw, genuine }
            })
            .collect()
    })[i]
}

/// the genuine responses of the fixture sessions (seed corpus)
pub fn login_response_seeds() -> Vec<Vec<u8>> {
    let mut v = Vec::new();
    for i in 0..suites().len() {
        for g in &session(i).genuine {
            let mut d = vec![i as u8];
            d.extend_from_slice(g);
            v.push(d);
        }
    }
    v
}

/// `data = [suite, payload...]`: payload is offered to a fixed pending client
/// session as credential response.  Oracle: accepted => payload re-encodes to
/// one of the genuine responses for that session (C04); no panic (C12).
pub fn login_response_target(data: &[u8]) -> Result<(), String> {
    if data.is_empty() {
        return Ok(());
    }
    ksf::set_default_spec(KsfSpec::Identity);
    let ss = suites();
    let i = data[0] as usize % ss.len();
    let s = ss[i];
    let sess = session(i);
    let Ok(resp) = s.de(Codec::Native, Ty::CredResp, &data[1..]) else {
        return Ok(());
    };
    match s.client_login_finish(s.clone_obj(&sess.state), &sess.pw, &resp, None, Ids::default(), None) {
        Err(_) => Ok(()),
        Ok(_) => {
            let re = s.ser(Codec::Native, &resp);
            if sess.genuine.iter().any(|g| *g == re) {
                Ok(())
            } else {
                Err(format!(
                    "C04 suite {}: client accepted a response that is not one of the genuine ones: {}",
                    s.meta().name,
                    hex::encode(&data[1..])
                ))
            }
        }
    }
}

pub fn run_target(target: &str, data: &[u8]) -> Result<(), String> {
    match target {
        "decoders" => decoders_target(data),
        "login_response" => login_response_target(data),
        other => Err(format!("HARNESS-BUG: unknown fuzz target {other}")),
    }
}

/// seed corpus for `decoders`: valid encodings of every type for every suite
pub fn decoders_seeds() -> Vec<Vec<u8>> {
    ksf::set_default_spec(KsfSpec::Identity);
    let mut v = Vec::new();
    for (i, s) in suites().iter().enumerate() {
        let m = s.meta();
        let samples = decoders::samples(*s, &TapeSpec::from_u64(0xC0DE + i as u64), i % 2 == 0).expect("HARNESS-BUG: samples");
        let setup = samples.get(Ty::ServerSetup);
        let nat = s.ser(Codec::Native, setup);
        for (ti, ty) in ALL_TYS.iter().enumerate() {
            let obj = if DECODERS11.contains(ty) {
                s.clone_obj(samples.get(*ty))
            } else {
                let b = match ty {
                    Ty::PublicKey => s.setup_public_key(setup),
                    _ => fieldmap::slice(&m, Ty::ServerSetup, "server_s_sk", &nat).to_vec(),
                };
                s.de(Codec::Native, *ty, &b).expect("HARNESS-BUG: key sample")
            };
            for (ci, cd) in CODECS.iter().enumerate() {
                // JSON images are large: keep them for two suites only
                if *cd == Codec::Json && i != 0 && i != 7 {
                    continue;
                }
                if *cd == Codec::Bincode && !DECODERS11.contains(ty) && i > 4 {
                    continue;
                }
                let mut d = vec![i as u8, ti as u8, ci as u8];
                d.extend_from_slice(&s.ser(*cd, &obj));
                v.push(d);
            }
        }
    }
    v
}

//! Entry functions of the coverage-guided fuzz targets.  They live in the
//! harness library so that (a) the libFuzzer targets, (b) the stable `vcheck`
//! corpus replay (quick tier) and (c) crash confirmation on the production
//! profile all run exactly the same oracle.

use std::sync::OnceLock;

use crate::decoders;
use crate::fieldmap;
use crate::ksf::{self, KsfSpec};
use crate::props::c10::strict_oracle;
use crate::proto::*;
use crate::tape::TapeSpec;

fn suites() -> &'static Vec<&'static dyn Proto> {
    static S: OnceLock<Vec<&'static dyn Proto>> = OnceLock::new();
    S.get_or_init(crate::suites::suites20)
}

/// `data = [suite, type, codec, payload...]`
/// Oracle: no panic (C12); native: accepted => exact length and re-encodes to
/// itself (C10); any codec: every group-element / scalar field of an accepted
/// value is valid by the independent predicate (C11).
pub fn decoders_target(data: &[u8]) -> Result<(), String> {
    if data.len() < 3 {
        return Ok(());
    }
    let ss = suites();
    let s = ss[data[0] as usize % ss.len()];
    let ty = ALL_TYS[data[1] as usize % ALL_TYS.len()];
    let codec = CODECS[data[2] as usize % 3];
    let payload = &data[3..];
    let m = s.meta();
    let obj = if codec == Codec::Native && DECODERS11.contains(&ty) {
        match strict_oracle(s, ty, payload, m.len_of(ty)) {
            Err((sig, msg)) => return Err(format!("C10 {sig}: {msg}")),
            Ok(false) => return Ok(()),
            Ok(true) => s.de(codec, ty, payload).ok(),
        }
    } else {
        s.de(codec, ty, payload).ok()
    };
    let Some(obj) = obj else { return Ok(()) };
    // C11 on whatever was accepted
    let native = s.ser(Codec::Native, &obj);
    for f in fieldmap::fields(&m, ty) {
        if f.kind.is_group_elem() || f.kind.is_scalar() {
            let b = &native[f.off..f.off + f.len];
            if !decoders::valid_field(&m, f.kind, b) {
                return Err(format!(
                    "C11 {} ({codec:?} decoder, suite {}) accepted an invalid {:?} in field {}: {}",
                    ty.name(),
                    m.name,
                    f.kind,
                    f.name,
                    hex::encode(b)
                ));
            }
        }
    }
    // accepted values re-encode and decode again to the same thing through every codec
    for cd in CODECS {
        let img = s.ser(cd, &obj);
        match s.de(cd, ty, &img) {
            Ok(o2) => {
                if s.ser(Codec::Native, &o2) != native {
                    return Err(format!("C13 {}: {cd:?} round trip of an accepted value changes it", ty.name()));
                }
            }
            Err(e) => return Err(format!("C13 {}: {cd:?} image of an accepted value does not decode: {e:?}", ty.name())),
        }
    }
    Ok(())
}

struct Session {
    state: Obj,
    pw: Vec<u8>,
    genuine: Vec<Vec<u8>>,
    /// server side of the first genuine answer: pending state and its matching finalization
    server_state: Obj,
    fake_state: Obj,
    fin: Vec<u8>,
    setup: Obj,
    record: Obj,
}

fn session(i: usize) -> &'static Session {
    static S: OnceLock<Vec<Session>> = OnceLock::new();
    &S.get_or_init(|| {
        ksf::set_default_spec(KsfSpec::Identity);
        suites()
            .iter()
            .enumerate()
            .map(|(n, s)| {
                let t = |k: u64| TapeSpec::from_u64(0xF00D + n as u64).derive(k);
                let pw = b"fuzz password".to_vec();
                let setup = s.setup_new(&mut t(0).rng());
                let reg = crate::flow::register(*s, &setup, &pw, b"cred", Ids::default(), None, &t(1), &t(2))
                    .expect("HARNESS-BUG: fixture registration");
                let (req, state) = s.client_login_start(&mut t(3).rng(), &pw).expect("HARNESS-BUG: fixture login start");
                let mut genuine = Vec::new();
                let mut first = None;
                for k in 0..2 {
                    let (resp, sst) = s
                        .server_login_start(&mut t(4 + k).rng(), &setup, Some(&reg.record), &req, b"cred", None, Ids::default())
                        .expect("HARNESS-BUG: fixture server start");
                    genuine.push(s.ser(Codec::Native, &resp));
                    if first.is_none() {
                        first = Some((resp, sst));
                    }
                }
                let (resp0, server_state) = first.unwrap();
                let lf = s
                    .client_login_finish(s.clone_obj(&state), &pw, &resp0, None, Ids::default(), None)
                    .expect("HARNESS-BUG: fixture client finish");
                let fin = s.ser(Codec::Native, &lf.fin);
                let (_, fake_state) = s
                    .server_login_start(&mut t(9).rng(), &setup, None, &req, b"cred", None, Ids::default())
                    .expect("HARNESS-BUG: fixture fake start");
                Session { state, pw, genuine, server_state, fake_state, fin, setup, record: reg.record }
            })
            .collect()
    })[i]
}

/// the genuine responses of the fixture sessions (seed corpus)
pub fn login_response_seeds() -> Vec<Vec<u8>> {
    let mut v = Vec::new();
    for i in 0..suites().len() {
        for g in &session(i).genuine {
            let mut d = vec![i as u8];
            d.extend_from_slice(g);
            v.push(d);
        }
    }
    v
}

/// `data = [suite, payload...]`: payload is offered to a fixed pending client
/// session as credential response.  Oracle: accepted => payload re-encodes to
/// one of the genuine responses for that session (C04); no panic (C12).
pub fn login_response_target(data: &[u8]) -> Result<(), String> {
    if data.is_empty() {
        return Ok(());
    }
    ksf::set_default_spec(KsfSpec::Identity);
    let ss = suites();
    let i = data[0] as usize % ss.len();
    let s = ss[i];
    let sess = session(i);
    let Ok(resp) = s.de(Codec::Native, Ty::CredResp, &data[1..]) else {
        return Ok(());
    };
    match s.client_login_finish(s.clone_obj(&sess.state), &sess.pw, &resp, None, Ids::default(), None) {
        Err(_) => Ok(()),
        Ok(_) => {
            let re = s.ser(Codec::Native, &resp);
            if sess.genuine.iter().any(|g| *g == re) {
                Ok(())
            } else {
                Err(format!(
                    "C04 suite {}: client accepted a response that is not one of the genuine ones: {}",
                    s.meta().name,
                    hex::encode(&data[1..])
                ))
            }
        }
    }
}

/// `data = [suite, kind, payload...]`: payload is offered as finalization to a fixed pending
/// server state (kind even: real record; odd: fake record).  Oracle: a key is returned
/// only for the genuine finalization of the real state (C03); no panic.
pub fn server_finish_target(data: &[u8]) -> Result<(), String> {
    if data.len() < 2 {
        return Ok(());
    }
    let ss = suites();
    let i = data[0] as usize % ss.len();
    let s = ss[i];
    let sess = session(i);
    let fake = data[1] & 1 == 1;
    let Ok(fin) = s.de(Codec::Native, Ty::CredFin, &data[2..]) else {
        return Ok(());
    };
    let st = if fake { &sess.fake_state } else { &sess.server_state };
    match s.server_login_finish(s.clone_obj(st), &fin) {
        Err(_) => Ok(()),
        Ok(_) if !fake && data[2..] == sess.fin[..] => Ok(()),
        Ok(_) => Err(format!(
            "C03 suite {}: server ({} record) completed on a finalization that is not the matching one: {}",
            s.meta().name,
            if fake { "fake" } else { "real" },
            hex::encode(&data[2..])
        )),
    }
}

pub fn server_finish_seeds() -> Vec<Vec<u8>> {
    let mut v = Vec::new();
    for i in 0..suites().len() {
        for k in 0..2u8 {
            let mut d = vec![i as u8, k];
            d.extend_from_slice(&session(i).fin);
            v.push(d);
        }
    }
    v
}

/// `data = [suite, flags, cred_len, cred..., payload...]`: payload is offered as credential
/// request to ServerLogin::start (flags bit0: with record; bit1: explicit identities; bit2:
/// context).  Oracle: no panic (C12); an Ok response has the fixed length, decodes, and the
/// pending state has the fixed length (C08's "same length and structure", C10).
pub fn server_start_target(data: &[u8]) -> Result<(), String> {
    if data.len() < 3 {
        return Ok(());
    }
    ksf::set_default_spec(KsfSpec::Identity);
    let ss = suites();
    let i = data[0] as usize % ss.len();
    let s = ss[i];
    let m = s.meta();
    let sess = session(i);
    let flags = data[1];
    let cl = (data[2] as usize).min(data.len() - 3);
    let cred = &data[3..3 + cl];
    let payload = &data[3 + cl..];
    let Ok(req) = s.de(Codec::Native, Ty::CredReq, payload) else {
        return Ok(());
    };
    let ids = if flags & 2 != 0 {
        Ids {
            client: Some(b"fuzz-client"),
            server: Some(b"fuzz-server"),
        }
    } else {
        Ids::default()
    };
    let ctx: Option<&[u8]> = if flags & 4 != 0 { Some(b"fuzz-context") } else { None };
    let rec = if flags & 1 != 0 { Some(&sess.record) } else { None };
    let mut rng = TapeSpec::from_u64(0xABCD).rng();
    match s.server_login_start(&mut rng, &sess.setup, rec, &req, cred, ctx, ids) {
        Err(_) => Ok(()),
        Ok((resp, st)) => {
            let rb = s.ser(Codec::Native, &resp);
            if rb.len() != m.len_of(Ty::CredResp) || s.de(Codec::Native, Ty::CredResp, &rb).is_err() {
                return Err(format!("C08 suite {}: ServerLogin::start produced a malformed response", m.name));
            }
            if s.ser(Codec::Native, &st).len() != m.len_of(Ty::ServerLogin) {
                return Err(format!("C10 suite {}: pending state has the wrong length", m.name));
            }
            Ok(())
        }
    }
}

pub fn server_start_seeds() -> Vec<Vec<u8>> {
    let ss = suites();
    let mut v = Vec::new();
    for (i, s) in ss.iter().enumerate() {
        let (req, _) = s
            .client_login_start(&mut TapeSpec::from_u64(0xBEEF + i as u64).rng(), b"pw")
            .expect("HARNESS-BUG: seed request");
        for flags in [0u8, 1, 7] {
            let mut d = vec![i as u8, flags, 4];
            d.extend_from_slice(b"cred");
            d.extend_from_slice(&s.ser(Codec::Native, &req));
            v.push(d);
        }
    }
    v
}

/// `data = [suite, tape base, 8-byte ops...]`: a whole adversarially routed history on one server
/// (see `crate::history`).  Oracle: acceptance by provenance (C07), C13 for re-serialised states.
pub fn history_target(data: &[u8]) -> Result<(), String> {
    if data.len() < 2 {
        return Ok(());
    }
    let ss = suites();
    let s = ss[data[0] as usize % ss.len()];
    let mut st = crate::history::HistoryStats::default();
    let r = crate::history::run_history(s, data, &mut st);
    if let Ok(mut t) = HISTORY_TOTALS.lock() {
        t.add(&st);
    }
    r
}

static HISTORY_TOTALS: std::sync::Mutex<crate::history::HistoryStats> = std::sync::Mutex::new(crate::history::HistoryStats::ZERO);

/// what the histories replayed so far in this process contained (for the evidence file)
pub fn history_totals() -> crate::history::HistoryStats {
    HISTORY_TOTALS.lock().map(|t| t.clone()).unwrap_or_default()
}

pub fn history_seeds() -> Vec<Vec<u8>> {
    crate::history::seeds(suites().len())
}

pub const TARGETS: [&str; 5] = ["decoders", "login_response", "server_finish", "server_start", "history"];

pub fn run_target(target: &str, data: &[u8]) -> Result<(), String> {
    match target {
        "decoders" => decoders_target(data),
        "login_response" => login_response_target(data),
        "server_finish" => server_finish_target(data),
        "server_start" => server_start_target(data),
        "history" => history_target(data),
        other => Err(format!("HARNESS-BUG: unknown fuzz target {other}")),
    }
}

/// seed corpus for `decoders`: valid encodings of every type for every suite
pub fn decoders_seeds() -> Vec<Vec<u8>> {
    ksf::set_default_spec(KsfSpec::Identity);
    let mut v = Vec::new();
    for (i, s) in suites().iter().enumerate() {
        let m = s.meta();
        let samples = decoders::samples(*s, &TapeSpec::from_u64(0xC0DE + i as u64), i % 2 == 0).expect("HARNESS-BUG: samples");
        let setup = samples.get(Ty::ServerSetup);
        let nat = s.ser(Codec::Native, setup);
        for (ti, ty) in ALL_TYS.iter().enumerate() {
            let obj = if DECODERS11.contains(ty) {
                s.clone_obj(samples.get(*ty))
            } else {
                let b = match ty {
                    Ty::PublicKey => s.setup_public_key(setup),
                    _ => fieldmap::slice(&m, Ty::ServerSetup, "server_s_sk", &nat).to_vec(),
                };
                s.de(Codec::Native, *ty, &b).expect("HARNESS-BUG: key sample")
            };
            for (ci, cd) in CODECS.iter().enumerate() {
                // JSON images are large: keep them for two suites only
                if *cd == Codec::Json && i != 0 && i != 7 {
                    continue;
                }
                if *cd == Codec::Bincode && !DECODERS11.contains(ty) && i > 4 {
                    continue;
                }
                let mut d = vec![i as u8, ti as u8, ci as u8];
                d.extend_from_slice(&s.ser(*cd, &obj));
                v.push(d);
            }
        }
    }
    v
}

/// Regression inputs for the `decoders` target: the inputs that exposed the three defects
/// repaired in /repo (D1 trailing bytes, D2 SEC1 compact tag, D3 Curve25519 small order),
/// for every suite they apply to.  They must now be rejected (the target returns Ok).
pub fn decoders_regressions() -> Vec<(String, Vec<u8>)> {
    ksf::set_default_spec(KsfSpec::Identity);
    let mut v = Vec::new();
    for (i, s) in suites().iter().enumerate() {
        let m = s.meta();
        let samples = decoders::samples(*s, &TapeSpec::from_u64(0xD0 + i as u64), false).expect("HARNESS-BUG: samples");
        let idx = |ty: Ty| ALL_TYS.iter().position(|t| *t == ty).unwrap() as u8;
        // D1
        let mut d = vec![i as u8, idx(Ty::RegReq), 0];
        d.extend_from_slice(&s.ser(Codec::Native, samples.get(Ty::RegReq)));
        d.extend_from_slice(b"xx");
        v.push((format!("D1-trailing-bytes-{i:02}"), d));
        // D2: compact tag on every group-element field of every type
        for ty in DECODERS11 {
            let nat = s.ser(Codec::Native, samples.get(ty));
            for f in fieldmap::fields(&m, ty) {
                let nist = match f.kind {
                    fieldmap::FieldKind::OprfElem => m.oprf != OprfKind::Ristretto255,
                    fieldmap::FieldKind::KePk => matches!(m.ke, KeKind::P256 | KeKind::P384 | KeKind::P521),
                    _ => false,
                };
                if nist {
                    let mut b = nat.clone();
                    b[f.off] = 0x05;
                    let mut d = vec![i as u8, idx(ty), 0];
                    d.extend_from_slice(&b);
                    v.push((format!("D2-compact-tag-{i:02}-{}-{}", ty.name(), f.name), d));
                }
            }
        }
        // D3
        if m.ke == KeKind::Curve25519 {
            let nat = s.ser(Codec::Native, samples.get(Ty::RegResp));
            let f = fieldmap::field(&m, Ty::RegResp, "server_s_pk");
            for (k, u) in crate::refmodel::x25519_small_order_residues().iter().enumerate() {
                let mut d = vec![i as u8, idx(Ty::RegResp), 0];
                d.extend_from_slice(&fieldmap::splice(&nat, &f, u));
                v.push((format!("D3-small-order-{i:02}-{k}"), d));
            }
        }
    }
    v
}

//! vharness: property-based testing / fuzzing harness for facebook/opaque-ke.
//! Links the production (`cfg(not(test))`) build of the crate at `/repo`.

pub mod fieldmap;
pub mod ksf;
pub mod proto;
pub mod remote;
pub mod suites;
pub mod tape;

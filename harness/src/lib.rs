//! vharness: property-based testing / fuzzing harness for facebook/opaque-ke.
//! Links the production (`cfg(not(test))`) build of the crate at `/repo`.

pub mod decoders;
pub mod fieldmap;
pub mod flow;
pub mod fuzzsupport;
pub mod gen;
pub mod history;
pub mod known;
pub mod ksf;
pub mod props;
pub mod proto;
pub mod refmodel;
pub mod remote;
pub mod runner;
pub mod selftest;
pub mod suites;
pub mod tape;

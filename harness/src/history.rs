//! Byte-driven protocol histories with a provenance model (stateful fuzz target `history`).
//!
//! `data = [suite, tape base, op*]`, every op is one 8-byte record
//! `[opcode, a, b, c, d, e, m0, m1]`.  The interpreter keeps one server setup, a pool of
//! registration records, pending client sessions, pending server sessions and every message
//! that was ever produced or delivered; the adversary (the byte string) chooses which message
//! goes where, may alter messages (byte flips, field splices between messages of one type,
//! length changes) and may push any kept state through any codec in between.
//!
//! Sessions and messages are addressed from the newest backwards (0 = the latest one), records
//! absolutely (0 = none), so that small numbers mean "the conversation in progress".
//!
//! Oracle = acceptance by provenance (C07, with C01's positive direction, C13 for the
//! re-serialisations, C16 for the export key, C12 no panic):
//!   * a client session completes exactly on the bytes of a response that a server session
//!     produced for this client's own request, under a record registered with the client's
//!     password, evaluated under that record's credential identifier, with the context and
//!     identities of all three sides agreeing;
//!   * a server session completes exactly on the finalization that a client produced from this
//!     very server session's response;
//!   * keys agree within a completed session, distinct completed sessions have distinct keys,
//!     and a completing client gets the registration's export key.
//! Nothing else is required: which error a refusal carries, draw order, etc. are not observed.

use crate::fieldmap;
use crate::ksf::{self, KsfSpec};
use crate::proto::*;
use crate::tape::TapeSpec;

pub const OP_LEN: usize = 8;
pub const MAX_OPS: usize = 40;

const PWS: [&[u8]; 3] = [b"correct horse", b"correct horsf", b"x"];
const CREDS: [&[u8]; 3] = [b"alice", b"bob", b"alice\0"];
const CTXS: [Option<&[u8]>; 3] = [None, Some(b""), Some(b"history-ctx")];
const IDS: [(Option<&[u8]>, Option<&[u8]>); 3] = [(None, None), (Some(b"alice"), Some(b"srv")), (Some(b"bob"), None)];

/// newest-first addressing
fn rel(len: usize, a: usize) -> usize {
    len - 1 - (a % len)
}

fn ctx_eff(i: usize) -> &'static [u8] {
    CTXS[i].unwrap_or(b"")
}
fn ids_of(i: usize) -> Ids<'static> {
    Ids {
        client: IDS[i].0,
        server: IDS[i].1,
    }
}

struct Reg {
    record: Obj,
    pw: usize,
    cred: usize,
    ids: usize,
    export_key: Vec<u8>,
}
struct ClientSess {
    state: Obj,
    pw: usize,
    req: Vec<u8>,
}
struct ServerSess {
    state: Obj,
    /// the request bytes this session answered (re-encoded)
    req: Vec<u8>,
    rec: Option<usize>,
    cred: usize,
    ctx: usize,
    ids: usize,
    resp: Vec<u8>,
}
struct Done {
    fin: Vec<u8>,
    key: Vec<u8>,
    server_session: usize,
}

#[derive(Default, Debug, Clone)]
pub struct HistoryStats {
    pub ops: u64,
    pub registrations: u64,
    pub client_finishes: u64,
    pub client_accepts: u64,
    pub server_finishes: u64,
    pub server_accepts: u64,
    pub mutated_deliveries: u64,
    pub cross_deliveries: u64,
    pub reserialisations: u64,
}

impl HistoryStats {
    pub const ZERO: HistoryStats = HistoryStats {
        ops: 0,
        registrations: 0,
        client_finishes: 0,
        client_accepts: 0,
        server_finishes: 0,
        server_accepts: 0,
        mutated_deliveries: 0,
        cross_deliveries: 0,
        reserialisations: 0,
    };
    pub fn add(&mut self, o: &HistoryStats) {
        self.ops += o.ops;
        self.registrations += o.registrations;
        self.client_finishes += o.client_finishes;
        self.client_accepts += o.client_accepts;
        self.server_finishes += o.server_finishes;
        self.server_accepts += o.server_accepts;
        self.mutated_deliveries += o.mutated_deliveries;
        self.cross_deliveries += o.cross_deliveries;
        self.reserialisations += o.reserialisations;
    }
}

/// how a delivered message is altered; returns the bytes to deliver
fn mutate(m: &Meta, ty: Ty, base: &[u8], pool: &[Vec<u8>], m0: u8, m1: u8, e: u8) -> (Vec<u8>, bool) {
    let mut v = base.to_vec();
    match m0 {
        0..=127 => return (v, false),
        128..=159 => {
            // one byte changed
            if !v.is_empty() {
                let off = (m1 as usize * 256 + e as usize) % v.len();
                v[off] ^= (m0 & 0x1f) | 1;
            }
        }
        160..=191 => {
            // the same bits flipped in two bytes (differences cancel under XOR)
            if v.len() >= 2 {
                let off = (m1 as usize * 256 + e as usize) % (v.len() - 1);
                let other = (off + 1 + (m0 & 3) as usize).min(v.len() - 1);
                let x = ((m0 >> 2) & 7) as u32;
                v[off] ^= 1 << x;
                v[other] ^= 1 << x;
            }
        }
        192..=239 => {
            // one field taken from another message of the same type
            let fs = fieldmap::fields(m, ty);
            if !fs.is_empty() && !pool.is_empty() {
                let f = &fs[m1 as usize % fs.len()];
                let other = &pool[e as usize % pool.len()];
                if other.len() == v.len() {
                    v[f.off..f.off + f.len].copy_from_slice(&other[f.off..f.off + f.len]);
                }
            }
        }
        240..=247 => {
            v.truncate(v.len().saturating_sub(1 + (m1 as usize % 8)));
        }
        _ => {
            v.extend(std::iter::repeat(e).take(1 + (m1 as usize % 8)));
        }
    }
    let changed = v != base;
    (v, changed)
}

pub fn run_history(s: &'static dyn Proto, data: &[u8], stats: &mut HistoryStats) -> Result<(), String> {
    run_history_traced(s, data, stats, true, &mut Vec::new())
}

/// `reser` = false turns the "push a kept state through a codec" operations into no-ops (the
/// uninterrupted run C13 compares with; tapes are unaffected, they are derived per protocol
/// step).  `trace` receives every observable outcome in order: messages, states, keys, or a
/// marker for a refusal.
pub fn run_history_traced(
    s: &'static dyn Proto,
    data: &[u8],
    stats: &mut HistoryStats,
    reser_enabled: bool,
    trace: &mut Vec<Vec<u8>>,
) -> Result<(), String> {
    const REFUSED: u8 = 0xEE;
    ksf::set_default_spec(KsfSpec::Identity);
    let m = s.meta();
    let base = TapeSpec::from_u64(0x4157 + data.first().copied().unwrap_or(0) as u64 * 257 + data.get(1).copied().unwrap_or(0) as u64);
    let mut step = 0u64;
    let mut tape = || {
        step += 1;
        base.derive(step)
    };
    let mut setup = s.setup_new(&mut tape().rng());
    let mut regs: Vec<Reg> = Vec::new();
    let mut clients: Vec<ClientSess> = Vec::new();
    let mut servers: Vec<ServerSess> = Vec::new();
    let mut reqs: Vec<Vec<u8>> = Vec::new();
    let mut resps: Vec<Vec<u8>> = Vec::new();
    let mut fins: Vec<Vec<u8>> = Vec::new();
    let mut done: Vec<Done> = Vec::new();
    let viol = |what: String| Err(format!("C07 suite {}: {what}", m.name));

    for op in data.get(2..).unwrap_or(&[]).chunks_exact(OP_LEN).take(MAX_OPS) {
        let (code, a, b, c, d, e, m0, m1) = (op[0] % 6, op[1] as usize, op[2] as usize, op[3] as usize, op[4] as usize, op[5], op[6], op[7]);
        stats.ops += 1;
        match code {
            // ---- register (pw a, cred b, ids c)
            0 => {
                if regs.len() >= 6 {
                    continue;
                }
                let (pw, cred, ids) = (a % 3, b % 3, c % 3);
                let r = crate::flow::register(s, &setup, PWS[pw], CREDS[cred], ids_of(ids), None, &tape(), &tape())
                    .map_err(|x| format!("C01 suite {}: honest registration failed: {x:?}", m.name))?;
                trace.push([s.ser(Codec::Native, &r.record), r.export_key.clone()].concat());
                regs.push(Reg {
                    record: r.record,
                    pw,
                    cred,
                    ids,
                    export_key: r.export_key,
                });
                stats.registrations += 1;
            }
            // ---- client start (pw a)
            1 => {
                if clients.len() >= 6 {
                    continue;
                }
                let pw = a % 3;
                let (req, state) = s
                    .client_login_start(&mut tape().rng(), PWS[pw])
                    .map_err(|x| format!("C01 suite {}: client login start failed: {x:?}", m.name))?;
                let rb = s.ser(Codec::Native, &req);
                trace.push([rb.clone(), s.ser(Codec::Native, &state)].concat());
                reqs.push(rb.clone());
                clients.push(ClientSess { state, pw, req: rb });
            }
            // ---- server start (request a, record b (0 = none), cred c, ctx d, ids e)
            2 => {
                if reqs.is_empty() || servers.len() >= 10 {
                    continue;
                }
                let (bytes, changed) = mutate(&m, Ty::CredReq, &reqs[rel(reqs.len(), a)], &reqs, m0, m1, e);
                if changed {
                    stats.mutated_deliveries += 1;
                }
                let Ok(req) = s.de(Codec::Native, Ty::CredReq, &bytes) else { continue };
                let rec = if regs.is_empty() || b % (regs.len() + 1) == 0 { None } else { Some(b % (regs.len() + 1) - 1) };
                let (cred, ctx, ids) = (c % 3, d % 3, (e as usize / 8) % 3);
                match s.server_login_start(&mut tape().rng(), &setup, rec.map(|r| &regs[r].record), &req, CREDS[cred], CTXS[ctx], ids_of(ids)) {
                    Err(x) => {
                        trace.push(vec![REFUSED]);
                        // an unaltered, well-formed request is always answered (C08: with or without a record)
                        if !changed {
                            return Err(format!("C01 suite {}: server refused a genuine request: {x:?}", m.name));
                        }
                    }
                    Ok((resp, state)) => {
                        let rb = s.ser(Codec::Native, &resp);
                        trace.push([rb.clone(), s.ser(Codec::Native, &state)].concat());
                        resps.push(rb.clone());
                        servers.push(ServerSess {
                            state,
                            req: s.ser(Codec::Native, &req),
                            rec,
                            cred,
                            ctx,
                            ids,
                            resp: rb,
                        });
                    }
                }
            }
            // ---- client finish (client a, response b, pw c, ctx d, ids e)
            3 => {
                if clients.is_empty() || resps.is_empty() {
                    continue;
                }
                let ci = rel(clients.len(), a);
                let (bytes, changed) = mutate(&m, Ty::CredResp, &resps[rel(resps.len(), b)], &resps, m0, m1, e);
                if changed {
                    stats.mutated_deliveries += 1;
                }
                let Ok(resp) = s.de(Codec::Native, Ty::CredResp, &bytes) else { continue };
                let delivered = s.ser(Codec::Native, &resp);
                let (pw, ctx, ids) = (c % 3, d % 3, (e as usize / 8) % 3);
                let cl = &clients[ci];
                // provenance: which server session made exactly these bytes for exactly this request
                let matching: Vec<usize> = servers
                    .iter()
                    .enumerate()
                    .filter(|(_, sv)| {
                        sv.resp == delivered
                            && sv.req == cl.req
                            && sv.rec.map_or(false, |r| {
                                let r = &regs[r];
                                r.pw == cl.pw && r.pw == pw && r.cred == sv.cred && r.ids == sv.ids && r.ids == ids
                            })
                            && ctx_eff(sv.ctx) == ctx_eff(ctx)
                    })
                    .map(|(i, _)| i)
                    .collect();
                if !servers.iter().any(|sv| sv.resp == delivered && sv.req == cl.req) {
                    stats.cross_deliveries += 1;
                }
                stats.client_finishes += 1;
                let r = s.client_login_finish(s.clone_obj(&cl.state), PWS[pw], &resp, CTXS[ctx], ids_of(ids), None);
                trace.push(match &r {
                    Ok(lf) => [s.ser(Codec::Native, &lf.fin), lf.session_key.clone(), lf.export_key.clone()].concat(),
                    Err(_) => vec![REFUSED],
                });
                match (matching.first(), r) {
                    (Some(&si), Ok(lf)) => {
                        stats.client_accepts += 1;
                        let reg = &regs[servers[si].rec.unwrap()];
                        if lf.export_key != reg.export_key {
                            return Err(format!("C16 suite {}: login returned an export key other than the registration's", m.name));
                        }
                        let fb = s.ser(Codec::Native, &lf.fin);
                        if let Some(dn) = done.iter().find(|dn| dn.fin == fb) {
                            if dn.key != lf.session_key {
                                return viol("one finalization, two session keys".into());
                            }
                        } else {
                            fins.push(fb.clone());
                            done.push(Done {
                                fin: fb,
                                key: lf.session_key,
                                server_session: si,
                            });
                        }
                    }
                    (Some(_), Err(x)) => return Err(format!("C01 suite {}: client refused the matched conversation: {x:?}", m.name)),
                    (None, Ok(_)) => {
                        return viol(format!(
                            "client session {ci} (pw {}) completed on a response that no server session produced for its request under a matching record/credential id/context/identities (pw {pw}, ctx {ctx}, ids {ids}); response {}",
                            cl.pw,
                            hex::encode(&delivered)
                        ))
                    }
                    (None, Err(_)) => {}
                }
            }
            // ---- server finish (server a, finalization b)
            4 => {
                if servers.is_empty() {
                    continue;
                }
                let si = rel(servers.len(), a);
                let basefin: Vec<u8> = if fins.is_empty() { vec![0u8; m.nh] } else { fins[rel(fins.len(), b)].clone() };
                let (bytes, changed) = mutate(&m, Ty::CredFin, &basefin, &fins, m0, m1, e);
                if changed {
                    stats.mutated_deliveries += 1;
                }
                let Ok(fin) = s.de(Codec::Native, Ty::CredFin, &bytes) else { continue };
                let delivered = s.ser(Codec::Native, &fin);
                let expect = done.iter().find(|dn| dn.fin == delivered && dn.server_session == si);
                stats.server_finishes += 1;
                let fr = s.server_login_finish(s.clone_obj(&servers[si].state), &fin);
                trace.push(match &fr {
                    Ok(k) => k.clone(),
                    Err(_) => vec![REFUSED],
                });
                match (expect, fr) {
                    (Some(dn), Ok(k)) => {
                        stats.server_accepts += 1;
                        if k != dn.key {
                            return viol("session keys differ within a completed session".into());
                        }
                    }
                    (Some(_), Err(x)) => return Err(format!("C01 suite {}: server refused the finalization of its own matched conversation: {x:?}", m.name)),
                    (None, Ok(_)) => {
                        return viol(format!(
                            "server session {si} completed on a finalization that was not produced from its own response: {}",
                            hex::encode(&delivered)
                        ))
                    }
                    (None, Err(_)) => {}
                }
            }
            // ---- push a kept state through a codec (C13): nothing observable may change
            _ => {
                if !reser_enabled {
                    continue;
                }
                let codec = CODECS[b % 3];
                stats.reserialisations += 1;
                let reser = |o: &Obj| -> Result<Obj, String> {
                    let img = s.ser(codec, o);
                    let o2 = s
                        .de(codec, o.ty, &img)
                        .map_err(|x| format!("C13 suite {}: {codec:?} image of a kept {} does not decode: {x:?}", m.name, o.ty.name()))?;
                    if s.ser(Codec::Native, &o2) != s.ser(Codec::Native, o) {
                        return Err(format!("C13 suite {}: {codec:?} round trip changes a kept {}", m.name, o.ty.name()));
                    }
                    Ok(o2)
                };
                match a % 4 {
                    0 => setup = reser(&setup)?,
                    1 if !regs.is_empty() => {
                        let i = c % regs.len();
                        let o = reser(&regs[i].record)?;
                        regs[i].record = o;
                    }
                    2 if !clients.is_empty() => {
                        let i = c % clients.len();
                        let o = reser(&clients[i].state)?;
                        clients[i].state = o;
                    }
                    3 if !servers.is_empty() => {
                        let i = c % servers.len();
                        let o = reser(&servers[i].state)?;
                        servers[i].state = o;
                    }
                    _ => {}
                }
            }
        }
    }
    // distinct completed sessions have distinct session keys
    for x in 0..done.len() {
        for y in 0..x {
            if done[x].key == done[y].key {
                return viol(format!(
                    "two distinct completed sessions (server sessions {} and {}) share a session key",
                    done[x].server_session, done[y].server_session
                ));
            }
        }
    }
    Ok(())
}

/// encoder for seed histories
pub fn op(code: u8, a: u8, b: u8, c: u8, d: u8, e: u8, m0: u8, m1: u8) -> [u8; OP_LEN] {
    [code, a, b, c, d, e, m0, m1]
}

/// One intended conversation of user `user` with at most one deviation and one re-serialisation.
#[derive(Clone, Debug, PartialEq, Eq, Hash, serde::Serialize, serde::Deserialize)]
pub struct ConvSpec {
    /// 0: (pw0, cred0, default ids), 1: (pw1, cred1, default ids), 2: (pw0, cred2, explicit ids)
    pub user: u8,
    pub ctx: u8,
    /// 0 = none; 1..=4 = client start / server start / client finish / server finish
    pub dev_step: u8,
    /// which operand of that step is replaced (0..=4 = a..e) or 5 = the delivered message is altered
    pub dev_field: u8,
    pub dev_val: u8,
    pub m1: u8,
    /// 0 = none; k = a kept state is pushed through a codec after step k
    pub reser_step: u8,
    pub reser_kind: u8,
    pub codec: u8,
}

const USERS: [(u8, u8, u8); 3] = [(0, 0, 0), (1, 1, 0), (0, 2, 1)];

/// registrations every compiled history starts with (records 1, 2, 3)
pub fn preamble() -> Vec<[u8; OP_LEN]> {
    USERS.iter().map(|(pw, cred, ids)| op(0, *pw, *cred, *ids, 0, 0, 0, 0)).collect()
}

/// Interleaves the conversations (`inter[t]` picks which one advances at tick t) and emits the ops,
/// predicting the newest-first addresses of each conversation's own session and messages.
pub fn compile(convs: &[ConvSpec], inter: &[u8]) -> Vec<[u8; OP_LEN]> {
    let mut out = preamble();
    struct C {
        spec: ConvSpec,
        next: u8,
        client: usize,
        server: Option<usize>,
        fin: Option<usize>,
    }
    let mut cs: Vec<C> = convs
        .iter()
        .map(|s| C {
            spec: s.clone(),
            next: 1,
            client: 0,
            server: None,
            fin: None,
        })
        .collect();
    let (mut n_clients, mut n_servers, mut n_fins) = (0usize, 0usize, 0usize);
    let mut t = 0usize;
    loop {
        let open: Vec<usize> = (0..cs.len()).filter(|i| cs[*i].next <= 4).collect();
        if open.is_empty() {
            break;
        }
        let pick = open[inter.get(t).copied().unwrap_or(0) as usize % open.len()];
        t += 1;
        let c = &mut cs[pick];
        let (pw, cred, ids) = USERS[c.spec.user as usize % 3];
        let ctx = c.spec.ctx % 3;
        let step = c.next;
        c.next += 1;
        let mut o = match step {
            1 => {
                c.client = n_clients;
                n_clients += 1;
                op(1, pw, 0, 0, 0, 0, 0, 0)
            }
            2 => {
                let o = op(2, (n_clients - 1 - c.client) as u8, (c.spec.user % 3) + 1, cred, ctx, ids * 8, 0, 0);
                c.server = Some(n_servers);
                n_servers += 1;
                o
            }
            3 => {
                let b = c.server.map(|sv| n_servers - 1 - sv).unwrap_or(0);
                let o = op(3, (n_clients - 1 - c.client) as u8, b as u8, pw, ctx, ids * 8, 0, 0);
                if c.spec.dev_step == 0 || c.spec.dev_step > 3 {
                    c.fin = Some(n_fins);
                    n_fins += 1;
                }
                o
            }
            _ => {
                let a = c.server.map(|sv| n_servers - 1 - sv).unwrap_or(0);
                let b = c.fin.map(|f| n_fins - 1 - f).unwrap_or(0);
                op(4, a as u8, b as u8, 0, 0, 0, 0, 0)
            }
        };
        if c.spec.dev_step == step {
            match c.spec.dev_field % 6 {
                5 => {
                    o[6] = 128 | c.spec.dev_val;
                    o[7] = c.spec.m1;
                    o[5] = (o[5] & 0xf8) | (c.spec.m1 & 7);
                }
                4 => o[5] = (c.spec.dev_val % 3) * 8,
                f => o[1 + f as usize] = c.spec.dev_val % 4,
            }
        }
        out.push(o);
        if c.spec.reser_step == step {
            out.push(op(5, c.spec.reser_kind, c.spec.codec, 0, 0, 0, 0, 0));
        }
    }
    out
}

fn flat(ops: &[[u8; OP_LEN]], suite: u8, base: u8) -> Vec<u8> {
    let mut h = vec![suite, base];
    for o in ops {
        h.extend_from_slice(o);
    }
    h
}

pub fn seeds(n_suites: usize) -> Vec<Vec<u8>> {
    let conv = |user: u8, dev_step: u8, dev_field: u8, dev_val: u8, reser_step: u8, reser_kind: u8| ConvSpec {
        user,
        ctx: user,
        dev_step,
        dev_field,
        dev_val,
        m1: 3,
        reser_step,
        reser_kind,
        codec: user,
    };
    let mut v = Vec::new();
    for i in 0..n_suites {
        // one honest conversation
        v.push(flat(&compile(&[conv(0, 0, 0, 0, 0, 0)], &[]), i as u8, 0));
        // three users interleaved, states saved and restored in between, one altered response
        v.push(flat(
            &compile(
                &[conv(0, 0, 0, 0, 2, 3), conv(1, 0, 0, 0, 1, 2), conv(2, 3, 5, 9, 3, 0), conv(0, 4, 5, 1, 0, 0)],
                &[0, 1, 2, 3, 3, 2, 1, 0, 0, 0, 1, 1, 0, 0, 0, 0],
            ),
            i as u8,
            1,
        ));
        // near misses: other password at finish, other credential id, other identities, fake record
        v.push(flat(
            &compile(
                &[conv(0, 3, 2, 1, 0, 0), conv(1, 2, 2, 0, 0, 0), conv(2, 2, 4, 0, 0, 0), conv(0, 2, 1, 0, 0, 0), conv(1, 0, 0, 0, 0, 0)],
                &[0, 0, 0, 0, 0, 0, 0, 0, 0, 0, 0, 0, 0, 0, 0, 0, 0, 0, 0, 0],
            ),
            i as u8,
            2,
        ));
    }
    v
}

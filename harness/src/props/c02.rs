//! C02 — a wrong password never logs in.

use proptest::prelude::*;
use serde::{Deserialize, Serialize};
use serde_json::json;

use crate::flow;
use crate::gen::{self, BSpec, IdSpec, Tape};
use crate::known::KnownFindings;
use crate::ksf::{self, KsfSpec};
use crate::proto::*;
use crate::runner::*;
use crate::ensure;

#[derive(Clone, Debug, Serialize, Deserialize, Hash, PartialEq, Eq)]
pub enum Mutation {
    BitFlip { pos: u16, bit: u8 },
    DropLast { n: u8 },
    Append(#[serde(with = "gen::hexser")] Vec<u8>),
    ProperPrefix { keep: u16 },
    ExtendWith(u8),
    CaseFlip { pos: u16 },
    Swap { i: u16, j: u16 },
    ToEmpty,
    FlipLastByte,
    Prepend256 { seed: u64 },
    PrependOne(u8),
    Unrelated(BSpec),
    /// pw' = pw || filler, longer than the 65535-byte encodable limit: must not log in
    /// (any error; the invalid-login kind is only required for encodable passwords)
    ExtendBeyondLimit { extra: u16, seed: u64 },
    /// pw' = a digest of pw (0: SHA-256, 1: SHA-384, 2: SHA-512): catches "long inputs are
    /// pre-hashed" shortcuts that make a password and its digest equivalent
    DigestOf(u8),
}

impl Mutation {
    pub fn class(&self) -> &'static str {
        match self {
            Mutation::BitFlip { .. } => "bitflip",
            Mutation::DropLast { .. } => "drop-last",
            Mutation::Append(_) => "append",
            Mutation::ProperPrefix { .. } => "proper-prefix",
            Mutation::ExtendWith(0) => "extend-nul",
            Mutation::ExtendWith(b' ') => "extend-space",
            Mutation::ExtendWith(b'\n') => "extend-newline",
            Mutation::ExtendWith(_) => "extend-byte",
            Mutation::CaseFlip { .. } => "case-flip",
            Mutation::Swap { .. } => "swap",
            Mutation::ToEmpty => "to-empty",
            Mutation::FlipLastByte => "flip-last-byte",
            Mutation::Prepend256 { .. } => "len+256-equal-tail",
            Mutation::PrependOne(_) => "prepend-byte",
            Mutation::Unrelated(_) => "unrelated",
            Mutation::ExtendBeyondLimit { .. } => "extension-beyond-65535",
            Mutation::DigestOf(_) => "digest-of-password",
        }
    }
    /// produce pw' != pw; falls back to appending a NUL when the mutation does
    /// not apply (never rejects)
    pub fn apply(&self, pw: &[u8]) -> Vec<u8> {
        let fallback = || {
            let mut v = pw.to_vec();
            v.push(0);
            v
        };
        let out = match self {
            Mutation::BitFlip { pos, bit } => {
                if pw.is_empty() {
                    return fallback();
                }
                let mut v = pw.to_vec();
                let p = gen::pick(*pos, v.len());
                v[p] ^= 1 << (bit % 8);
                v
            }
            Mutation::DropLast { n } => {
                let n = (*n as usize).max(1);
                if pw.len() < n {
                    return fallback();
                }
                pw[..pw.len() - n].to_vec()
            }
            Mutation::Append(x) => {
                let mut v = pw.to_vec();
                v.extend_from_slice(x);
                if x.is_empty() {
                    v.push(1);
                }
                v
            }
            Mutation::ProperPrefix { keep } => {
                if pw.is_empty() {
                    return fallback();
                }
                pw[..gen::pick(*keep, pw.len())].to_vec()
            }
            Mutation::ExtendWith(b) => {
                let mut v = pw.to_vec();
                v.push(*b);
                v
            }
            Mutation::CaseFlip { pos } => {
                let letters: Vec<usize> = pw
                    .iter()
                    .enumerate()
                    .filter(|(_, b)| b.is_ascii_alphabetic())
                    .map(|(i, _)| i)
                    .collect();
                if letters.is_empty() {
                    return fallback();
                }
                let mut v = pw.to_vec();
                let p = letters[gen::pick(*pos, letters.len())];
                v[p] ^= 0x20;
                v
            }
            Mutation::Swap { i, j } => {
                if pw.len() < 2 {
                    return fallback();
                }
                let mut v = pw.to_vec();
                let a = gen::pick(*i, v.len());
                let b = gen::pick(*j, v.len());
                v.swap(a, b);
                v
            }
            Mutation::ToEmpty => Vec::new(),
            Mutation::FlipLastByte => {
                if pw.is_empty() {
                    return fallback();
                }
                let mut v = pw.to_vec();
                *v.last_mut().unwrap() ^= 1;
                v
            }
            Mutation::Prepend256 { seed } => {
                let mut v = gen::expand(256, *seed);
                v.extend_from_slice(pw);
                v
            }
            Mutation::PrependOne(b) => {
                let mut v = vec![*b];
                v.extend_from_slice(pw);
                v
            }
            Mutation::Unrelated(b) => b.bytes(),
            Mutation::DigestOf(a) => {
                use crate::refmodel::{hash, HashAlg};
                let alg = match a % 3 {
                    0 => HashAlg::Sha256,
                    1 => HashAlg::Sha384,
                    _ => HashAlg::Sha512,
                };
                hash(alg, &[pw])
            }
            Mutation::ExtendBeyondLimit { extra, seed } => {
                let mut v = pw.to_vec();
                let need = 65536usize.saturating_sub(pw.len()) + (*extra as usize % 300);
                v.extend_from_slice(&gen::expand(need.max(1), *seed));
                return v;
            }
        };
        if out == pw || out.len() > 65535 {
            fallback_checked(pw)
        } else {
            out
        }
    }
}

fn fallback_checked(pw: &[u8]) -> Vec<u8> {
    if pw.len() < 65535 {
        let mut v = pw.to_vec();
        v.push(0);
        v
    } else {
        let mut v = pw.to_vec();
        *v.last_mut().unwrap() ^= 0x80;
        v
    }
}

pub fn mutation() -> BoxedStrategy<Mutation> {
    prop_oneof![
        6 => (any::<u16>(), 0u8..8).prop_map(|(pos, bit)| Mutation::BitFlip { pos, bit }),
        3 => (1u8..4).prop_map(|n| Mutation::DropLast { n }),
        3 => proptest::collection::vec(any::<u8>(), 1..4).prop_map(Mutation::Append),
        3 => any::<u16>().prop_map(|keep| Mutation::ProperPrefix { keep }),
        4 => prop::sample::select(vec![0u8, b' ', b'\n', b'\t']).prop_map(Mutation::ExtendWith),
        3 => any::<u16>().prop_map(|pos| Mutation::CaseFlip { pos }),
        2 => (any::<u16>(), any::<u16>()).prop_map(|(i, j)| Mutation::Swap { i, j }),
        2 => Just(Mutation::ToEmpty),
        4 => Just(Mutation::FlipLastByte),
        2 => any::<u64>().prop_map(|seed| Mutation::Prepend256 { seed }),
        1 => prop::sample::select(vec![0u8, b' ']).prop_map(Mutation::PrependOne),
        3 => gen::bytes_param().prop_map(Mutation::Unrelated),
        2 => (any::<u16>(), any::<u64>()).prop_map(|(extra, seed)| Mutation::ExtendBeyondLimit { extra, seed }),
        3 => (0u8..3).prop_map(Mutation::DigestOf),
    ]
    .boxed()
}

#[derive(Clone, Debug, Serialize, Deserialize, Hash)]
pub struct Case {
    pub pw: BSpec,
    pub mutation: Mutation,
    pub cred: BSpec,
    pub id_u: IdSpec,
    pub id_s: IdSpec,
    pub ctx: Option<BSpec>,
    pub tape: Tape,
}

pub fn strategy(_s: &'static dyn Proto) -> BoxedStrategy<Case> {
    (
        gen::bytes_param(),
        mutation(),
        gen::cred_id(),
        // the client's default spelling needs a dry run; C01/C05 cover it
        prop_oneof![Just(IdSpec::Absent), gen::bytes_small().prop_map(IdSpec::Explicit)],
        gen::id_spec(gen::bytes_small()),
        gen::opt_ctx(gen::bytes_small()),
        gen::tape(),
    )
        .prop_map(|(pw, mutation, cred, id_u, id_s, ctx, tape)| Case {
            pw,
            mutation,
            cred,
            id_u,
            id_s,
            ctx,
            tape,
        })
        .boxed()
}

pub fn check(s: &'static dyn Proto, c: &Case, st: &mut Stats, _k: &KnownFindings) -> CaseResult {
    ksf::set_default_spec(KsfSpec::Identity);
    let pw = c.pw.bytes();
    let pw2 = c.mutation.apply(&pw);
    assert!(pw2 != pw, "HARNESS-BUG: mutation produced an equal password");
    let cred = c.cred.bytes();
    let ctx = flow::opt(&c.ctx);
    let t = |i: u64| c.tape.sub(i);
    let setup = s.setup_new(&mut t(0).rng());
    let server_pk = s.setup_public_key(&setup);
    let id_u = c.id_u.resolve(&[]);
    let id_s = c.id_s.resolve(&server_pk);
    let ids = Ids {
        client: id_u.as_deref(),
        server: id_s.as_deref(),
    };
    let reg = flow::register(s, &setup, &pw, &cred, ids, None, &t(1), &t(2))
        .map_err(|e| Fail::new(format!("honest registration failed: {e:?}")))?;
    // wrong password
    let bad = flow::login(
        s,
        &setup,
        Some(&reg.record),
        &pw2,
        &cred,
        ctx.as_deref(),
        ids,
        ctx.as_deref(),
        ids,
        None,
        &t(3),
        &t(4),
    )
    ;
    let bad = match bad {
        Ok(b) => b,
        // an over-limit password may be refused by any step that receives it, also an early one
        Err(_) if pw2.len() > 65535 => {
            st.eval(1);
            st.label(format!("mutation:{}", c.mutation.class()));
            st.label("over-limit password refused before the finish step");
            st.nontrivial(&(s.meta().name, c));
            return Ok(());
        }
        Err(e) => return Err(Fail::new(format!("login start steps failed for the wrong password: {e:?}"))),
    };
    st.eval(1);
    match &bad.client {
        Err(PErr::InvalidLogin) => {}
        Err(_) if pw2.len() > 65535 => {}
        Err(e) => {
            return Err(Fail::new(format!(
                "wrong password ({}) rejected with {e:?} instead of InvalidLogin",
                c.mutation.class()
            )))
        }
        Ok(_) => {
            return Err(Fail::new(format!(
                "client logged in with a wrong password (mutation {}: registered {} bytes, used {} bytes)",
                c.mutation.class(),
                pw.len(),
                pw2.len()
            )))
        }
    }
    // positive control: the same session family with the right password succeeds
    let good = flow::login(
        s,
        &setup,
        Some(&reg.record),
        &pw,
        &cred,
        ctx.as_deref(),
        ids,
        ctx.as_deref(),
        ids,
        None,
        &t(3),
        &t(4),
    )
    .map_err(|e| Fail::new(format!("control login start failed: {e:?}")))?;
    ensure!(good.client.is_ok(), "positive control failed: right password rejected: {:?}", good.client.as_ref().err());
    ensure!(
        matches!(good.server, Some(Ok(_))),
        "positive control failed: server rejected the right password's finalization"
    );

    st.label(format!("mutation:{}", c.mutation.class()));
    st.label(gen::len_class(pw.len()).replace("len", "pw"));
    if !matches!(c.mutation, Mutation::Unrelated(_)) {
        st.nontrivial(&(s.meta().name, c));
    }
    st.sample(|| {
        json!({"suite": s.meta().name, "pw": c.pw.describe(), "mutation": c.mutation.class(),
               "pw_wrong_len": pw2.len(), "ctx": c.ctx.as_ref().map(|b| b.describe())})
    });
    Ok(())
}

pub const BUDGET: Budget = Budget {
    quick: (900, 300, 100),
    thorough: (40000, 10000, 3000),
    shrink: 200,
};

pub fn run(cfg: &RunCfg) -> (Outcome, EvidenceExtra) {
    let out = run_property(cfg, "C02", crate::suites::suites20(), BUDGET, strategy, check);
    let ev = EvidenceExtra {
        rule: "case = (registered password, near-miss mutation, credential id, identities, context, tape); pw' = mutation(pw) != pw by construction (no rejection sampling); one class extends pw beyond the 65535-byte limit, where any error is accepted. One evaluation = one login attempt with pw' against the record of pw, which must end in exactly Err(InvalidLoginError) at ClientLogin::finish; the same sessions with pw must succeed on both sides (positive control). non-trivial = every mutation class except 'unrelated'; distinct by hash of (suite, case)".into(),
        assumptions: vec!["OPRF/hash collisions between different passwords do not occur".into()],
        exhaustive: None,
        extra: Default::default(),
    };
    (out, ev)
}

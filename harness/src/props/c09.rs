//! C09 — byte-exact conformance to RFC 9807 (OPAQUE-3DH) / RFC 9497 (OPRF mode 0).

use proptest::prelude::*;
use serde::{Deserialize, Serialize};
use serde_json::json;

use crate::fieldmap::slice;
use crate::flow;
use crate::gen::{self, BSpec, IdSpec, Tape};
use crate::known::KnownFindings;
use crate::ksf::{self, KsfSpec};
use crate::proto::*;
use crate::refmodel::{self as rm, Suite};
use crate::runner::*;
use crate::tape::TapeRng;
use crate::{ensure, ensure_eq};

#[derive(Clone, Debug, Serialize, Deserialize, Hash)]
pub struct Case {
    pub pw: BSpec,
    pub cred: BSpec,
    pub id_u: IdSpec,
    pub id_s: IdSpec,
    pub ctx: Option<BSpec>,
    pub ksf: Option<KsfSpec>,
    /// log in against an absent password file instead of the real one
    pub fake: bool,
    /// log in with another password (client must fail; server side still conforms)
    pub wrong_pw: bool,
    pub tape: Tape,
}

pub fn strategy(s: &'static dyn Proto) -> BoxedStrategy<Case> {
    (
        gen::bytes_param(),
        gen::cred_id(),
        prop_oneof![2 => Just(IdSpec::Absent), 3 => gen::bytes_param().prop_map(IdSpec::Explicit)],
        prop_oneof![2 => Just(IdSpec::Absent), 3 => gen::bytes_param().prop_map(IdSpec::Explicit)],
        gen::opt_ctx(gen::bytes_param()),
        ksf_with_output_len(s),
        prop::bool::weighted(0.25),
        prop::bool::weighted(0.15),
        gen::tape(),
    )
        .prop_map(|(pw, cred, id_u, id_s, ctx, ksf, fake, wrong_pw, tape)| Case {
            pw,
            cred,
            id_u,
            id_s,
            ctx,
            ksf,
            fake,
            wrong_pw,
            tape,
        })
        .boxed()
}

/// the KSF choices of C01 plus, where the suite's KSF type can be an Argon2 instance, instances with an
/// explicitly configured output length (RFC 9807: Stretch = Argon2id(S = zeroes(16), T = Nh, ...), so
/// such an instance is either refused or still evaluated with T = Nh)
fn ksf_with_output_len(s: &'static dyn Proto) -> BoxedStrategy<Option<KsfSpec>> {
    let base = super::c01::ksf_for(s, 1);
    match s.meta().ksf {
        KsfKind::Dyn | KsfKind::RealArgon2 => prop_oneof![
            12 => base,
            1 => prop::sample::select(vec![16u32, 32, 48, 64]).prop_map(|out_len| Some(KsfSpec::Argon2Out { m_kib: 8, t: 1, p: 1, out_len })),
        ]
        .boxed(),
        _ => base,
    }
}

/// find the recorded `nsk`-byte draw whose DeriveDiffieHellmanKeyPair has public key `pk`
fn witness_keypair(r: &TapeRng, m: &Meta, pk: &[u8]) -> Option<(Vec<u8>, Vec<u8>)> {
    for (_, seed) in r.windows(m.nsk) {
        if let Some((sk, p)) = rm::derive_dh_key_pair(m.ke, m.oprf, &seed) {
            if p == pk {
                return Some((seed, sk));
            }
        }
    }
    None
}

pub fn check(s: &'static dyn Proto, c: &Case, st: &mut Stats, _k: &KnownFindings) -> CaseResult {
    let m = s.meta();
    let suite = Suite::of(&m);
    // default KSF of the suite = Identity for DynKsf suites
    ksf::set_default_spec(KsfSpec::Identity);
    let mut configured_out_len: Option<usize> = None;
    let eff_ksf: KsfSpec = match (&c.ksf, m.ksf) {
        (Some(KsfSpec::Argon2Out { m_kib, t, p, out_len }), _) => {
            configured_out_len = Some(*out_len as usize);
            KsfSpec::Argon2 { m_kib: *m_kib, t: *t, p: *p }
        }
        (Some(k), _) => k.clone(),
        (None, KsfKind::RealArgon2) => KsfSpec::Argon2Default,
        (None, KsfKind::Zst) => KsfSpec::H(ksf::ZST_FAMILY),
        (None, _) => KsfSpec::Identity,
    };
    let stretch = |x: &[u8]| ksf::pure_stretch(&eff_ksf, x).expect("HARNESS-BUG: stretch");
    let pw = c.pw.bytes();
    let cred = c.cred.bytes();
    let ctx = flow::opt(&c.ctx);
    let id_u = c.id_u.resolve(&[]);
    let id_s = c.id_s.resolve(&[]);
    let ids = Ids {
        client: id_u.as_deref(),
        server: id_s.as_deref(),
    };
    let hx = |e: PErr, what: &str| Fail::new(format!("honest step failed ({what}): {e:?}"));

    // ---------------- setup
    let mut r0 = c.tape.sub(0).rng();
    let setup = s.setup_new(&mut r0);
    let sb = s.ser(Codec::Native, &setup);
    let oprf_seed = slice(&m, Ty::ServerSetup, "oprf_seed", &sb).to_vec();
    let server_sk = slice(&m, Ty::ServerSetup, "server_s_sk", &sb).to_vec();
    let fake_sk = slice(&m, Ty::ServerSetup, "fake_sk", &sb).to_vec();
    let server_pk = s.setup_public_key(&setup);
    ensure_eq!(rm::ke_public_key(m.ke, &server_sk), Some(server_pk.clone()), "server public key != sk*G (reference)");
    // how the long-term server secrets (OPRF seed, static and fake key pair) are generated is not
    // part of what the RFC fixes for messages and session outputs; their freshness is C17's subject.
    // They are only located on the tape when possible (label), never required to be.
    let fake_pk = rm::ke_public_key(m.ke, &fake_sk).ok_or_else(|| Fail::new("fake sk invalid for the reference"))?;
    if r0.has_draw(&oprf_seed) && witness_keypair(&r0, &m, &server_pk).is_some() && witness_keypair(&r0, &m, &fake_pk).is_some() {
        st.label("setup-secrets-located-on-tape");
    } else {
        st.label("setup-secrets-not-located-on-tape(not required)");
    }

    // ---------------- registration
    let mut r1 = c.tape.sub(1).rng();
    let (req, cst) = s.client_reg_start(&mut r1, &pw).map_err(|e| hx(e, "client reg start"))?;
    let req_b = s.ser(Codec::Native, &req);
    let cst_b = s.ser(Codec::Native, &cst);
    let blind_reg = cst_b[..m.nok].to_vec();
    let resp = s.server_reg_start(&setup, &req, &cred).map_err(|e| hx(e, "server reg start"))?;
    let resp_b = s.ser(Codec::Native, &resp);
    let mut r2 = c.tape.sub(2).rng();
    let fin = match s.client_reg_finish(cst, &mut r2, &pw, &resp, ids, c.ksf.as_ref()) {
        Ok(f) => f,
        Err(_) if configured_out_len.map_or(false, |k| k != m.nh) => {
            // an Argon2 instance configured for another tag length than Nh may be refused; if it is
            // accepted, everything below must still be the RFC's values (T = Nh)
            st.eval(1);
            st.label("ksf:argon2 with output_len != Nh refused");
            st.nontrivial(&(m.name, c));
            return Ok(());
        }
        Err(e) => return Err(hx(e, "client reg finish")),
    };
    if let Some(k) = configured_out_len {
        st.label(if k == m.nh { "ksf:argon2 with output_len == Nh" } else { "ksf:argon2 with output_len != Nh accepted" });
    }
    let upload_b = s.ser(Codec::Native, &fin.upload);
    let record = s.server_reg_finish(&fin.upload);
    let record_b = s.ser(Codec::Native, &record);
    let env_nonce = slice(&m, Ty::RegUpload, "envelope_nonce", &upload_b).to_vec();
    ensure!(r2.has_draw(&env_nonce), "envelope nonce is not a verbatim draw of the finish RNG");

    let ri = rm::RegInputs {
        oprf_seed: oprf_seed.clone(),
        cred_id: cred.clone(),
        password: pw.clone(),
        blind: blind_reg.clone(),
        envelope_nonce: env_nonce.clone(),
        server_pk: server_pk.clone(),
        id_u: id_u.clone(),
        id_s: id_s.clone(),
    };
    let rr = rm::registration(&suite, &ri, &stretch).ok_or_else(|| Fail::new("reference registration failed on witnessed values"))?;
    ensure_eq!(req_b, rr.request, "registration request != Blind(password, blind)");
    ensure_eq!(cst_b[m.nok..].to_vec(), rr.request, "client registration state does not hold the blinded element");
    ensure_eq!(resp_b, rr.response, "registration response != (oprf_key(seed, cred)*request || server_pk)");
    ensure_eq!(upload_b, rr.upload, "registration upload != RFC record (client_pk || masking_key || envelope)");
    ensure_eq!(record_b, rr.upload, "stored password file != RFC record");
    ensure_eq!(fin.export_key, rr.export_key, "export key (registration) != RFC export_key");
    ensure_eq!(fin.server_s_pk, server_pk, "server_s_pk (registration)");
    st.eval(6);

    // ---------------- login
    let pw_login = if c.wrong_pw {
        let mut p = pw.clone();
        p.push(b'!');
        if p.len() > 65535 {
            p = b"other".to_vec();
        }
        p
    } else {
        pw.clone()
    };
    let mut r3 = c.tape.sub(3).rng();
    let (lreq, lst) = s.client_login_start(&mut r3, &pw_login).map_err(|e| hx(e, "client login start"))?;
    let ke1_b = s.ser(Codec::Native, &lreq);
    let lst_b = s.ser(Codec::Native, &lst);
    let blind_login = slice(&m, Ty::ClientLogin, "blind", &lst_b).to_vec();
    let client_nonce = slice(&m, Ty::ClientLogin, "client_nonce_state", &lst_b).to_vec();
    let client_e_sk = slice(&m, Ty::ClientLogin, "client_e_sk", &lst_b).to_vec();
    let client_e_pk = slice(&m, Ty::CredReq, "client_e_pk", &ke1_b).to_vec();
    ensure!(r3.has_draw(&client_nonce), "client nonce is not a verbatim draw of the client RNG");
    let (_, cesk_ref) = witness_keypair(&r3, &m, &client_e_pk)
        .ok_or_else(|| Fail::new("client key share is not DeriveDiffieHellmanKeyPair(fresh Nsk-byte draw)"))?;
    ensure_eq!(cesk_ref, client_e_sk, "client ephemeral secret in state != DeriveDiffieHellmanKeyPair(seed).sk");
    // the state must embed KE1 verbatim
    ensure_eq!(lst_b[m.nok..m.nok + ke1_b.len()].to_vec(), ke1_b, "ClientLogin state does not embed KE1");

    let mut r4 = c.tape.sub(4).rng();
    let rec_opt = if c.fake { None } else { Some(&record) };
    let (lresp, sst) = s
        .server_login_start(&mut r4, &setup, rec_opt, &lreq, &cred, ctx.as_deref(), ids)
        .map_err(|e| hx(e, "server login start"))?;
    let ke2_b = s.ser(Codec::Native, &lresp);
    let sst_b = s.ser(Codec::Native, &sst);
    let masking_nonce = slice(&m, Ty::CredResp, "masking_nonce", &ke2_b).to_vec();
    let server_nonce = slice(&m, Ty::CredResp, "server_nonce", &ke2_b).to_vec();
    let server_e_pk = slice(&m, Ty::CredResp, "server_e_pk", &ke2_b).to_vec();
    ensure!(r4.has_draw(&masking_nonce), "masking nonce is not a verbatim draw of the server RNG");
    ensure!(r4.has_draw(&server_nonce), "server nonce is not a verbatim draw of the server RNG");
    let (_, server_e_sk) = witness_keypair(&r4, &m, &server_e_pk)
        .ok_or_else(|| Fail::new("server key share is not DeriveDiffieHellmanKeyPair(fresh Nsk-byte draw)"))?;

    let mut li = rm::LoginInputs {
        oprf_seed: oprf_seed.clone(),
        cred_id: cred.clone(),
        password: pw_login.clone(),
        blind: blind_login,
        client_nonce,
        client_e_sk,
        client_e_pk,
        server_sk: server_sk.clone(),
        server_pk: server_pk.clone(),
        rec_client_pk: rr.env.client_pk.clone(),
        rec_masking_key: rr.masking_key.clone(),
        rec_envelope: rr.envelope.clone(),
        masking_nonce,
        server_nonce,
        server_e_sk,
        server_e_pk,
        ctx: ctx.clone().unwrap_or_default(),
        id_u: id_u.clone(),
        id_s: id_s.clone(),
    };
    let lr = if c.fake {
        // RFC 9807 §10.9: fake client public key, random masking key, all-zero envelope
        li.rec_client_pk = fake_pk.clone();
        li.rec_envelope = vec![0u8; 32 + m.nh];
        let mut found = None;
        for (_, d) in r4.windows(m.nh) {
            li.rec_masking_key = d;
            let l = rm::login(&suite, &li, &stretch).ok_or_else(|| Fail::new("reference login failed on witnessed values"))?;
            if l.ke2 == ke2_b {
                found = Some(l);
                break;
            }
        }
        found.ok_or_else(|| {
            Fail::new("fake-record KE2 is not the RFC response for (fake client key, masking key = any fresh Nh-byte draw, zero envelope)")
        })?
    } else {
        rm::login(&suite, &li, &stretch).ok_or_else(|| Fail::new("reference login failed on witnessed values"))?
    };
    ensure_eq!(ke1_b, lr.ke1, "KE1 != RFC KE1");
    ensure_eq!(ke2_b, lr.ke2, "KE2 != RFC KE2");
    ensure_eq!(sst_b, lr.server_state, "pending server state != Km3 || H(preamble||server_mac) || session_key");
    st.eval(3);

    let cres = s.client_login_finish(lst, &pw_login, &lresp, ctx.as_deref(), ids, c.ksf.as_ref());
    match (&cres, &lr.client) {
        (Ok(cl), Some(rc)) => {
            let ke3_b = s.ser(Codec::Native, &cl.fin);
            ensure_eq!(ke3_b, rc.ke3, "KE3 != RFC KE3");
            ensure_eq!(cl.session_key, rc.session_key, "client session key != RFC session_key");
            ensure_eq!(cl.export_key, rc.export_key, "export key (login) != RFC export_key");
            ensure_eq!(cl.server_s_pk, rc.server_pk, "server public key recovered at login");
            let sk = s
                .server_login_finish(sst, &cl.fin)
                .map_err(|e| Fail::new(format!("server rejected the conforming KE3: {e:?}")))?;
            ensure_eq!(sk, lr.server_ks.session_key, "server session key != RFC session_key");
            st.eval(5);
        }
        (Err(_), None) => {
            ensure!(c.fake || c.wrong_pw, "client and reference both reject an honest login");
            st.eval(1);
        }
        (Ok(_), None) => return Err(Fail::new("client accepted where the RFC client rejects")),
        (Err(e), Some(_)) => return Err(Fail::new(format!("client rejected ({e:?}) where the RFC client accepts"))),
    }

    // labels / non-triviality
    let has_rfc_vectors = matches!(
        (m.oprf, m.ke),
        (OprfKind::Ristretto255, KeKind::Ristretto255) | (OprfKind::Ristretto255, KeKind::Curve25519) | (OprfKind::P256, KeKind::P256)
    );
    let long_param = [id_u.as_ref().map(|v| v.len()), id_s.as_ref().map(|v| v.len()), ctx.as_ref().map(|v| v.len())]
        .iter()
        .any(|l| l.map(|l| l > 255).unwrap_or(false));
    let nontrivial = !has_rfc_vectors || long_param || pw.is_empty() || cred.is_empty() || c.fake || c.wrong_pw
        || !matches!(eff_ksf, KsfSpec::Identity);
    if nontrivial {
        st.nontrivial(&(m.name, c));
    }
    st.label(if has_rfc_vectors { "suite:has-rfc-vectors" } else { "suite:no-rfc-vectors" });
    if long_param {
        st.label("param>255 bytes");
    }
    if c.fake {
        st.label("fake-record");
    }
    if c.wrong_pw {
        st.label("wrong-password");
    }
    st.label(gen::len_class(pw.len()).replace("len", "pw"));
    st.label(format!("ksf:{}", match eff_ksf { KsfSpec::Identity => "identity", KsfSpec::H(_) => "H_i", _ => "argon2" }));
    st.sample(|| json!({"suite": m.name, "pw": c.pw.describe(), "cred": c.cred.describe(), "id_u": c.id_u.class(), "id_s": c.id_s.class(),
        "ctx": c.ctx.as_ref().map(|b| b.describe()), "fake": c.fake, "wrong_pw": c.wrong_pw, "ksf": format!("{:?}", c.ksf),
        "bytes_compared": req_b.len()+resp_b.len()+upload_b.len()*2+ke1_b.len()+ke2_b.len()+sst_b.len()}));
    Ok(())
}

pub const BUDGET: Budget = Budget {
    quick: (160, 60, 20),
    thorough: (4000, 1200, 400),
    shrink: 30,
};

pub fn run(cfg: &RunCfg) -> (Outcome, EvidenceExtra) {
    let mut suites = crate::suites::suites20();
    suites.extend(crate::suites::real_ksf_suites());
    let out = run_property(cfg, "C09", suites, BUDGET, strategy, check);
    let ev = EvidenceExtra {
        rule: "case = inputs as C01 plus fake-record and wrong-password logins, on recorded tapes. Oracle = independent reference model of RFC 9807/9497 (own HMAC/HKDF/Expand-Label/expand_message_xmd/DeriveKeyPair; OPRF via voprf's public API; pinned at start-up by the 6+3 RFC 9807 vectors, the RFC 9497 OPRF-mode vectors of all 4 suites and RFC 7748 vectors), fed with the inputs and the random choices witnessed in states/messages; it must reproduce every byte of registration request/response/upload, password file, KE1, KE2, KE3, export key, both session keys and the pending server state. RFC-random values are additionally matched to recorded draws (nonces verbatim, key pairs = DeriveDiffieHellmanKeyPair(draw), fake masking key = an Nh-byte draw). evaluation = one compared artefact. non-trivial = suite without RFC vectors, or a parameter > 255 bytes, or empty password/credential id, or fake record, wrong password, non-Identity KSF; distinct by hash of (suite, case)".into(),
        assumptions: vec![
            "trusted base of the reference: sha2, voprf (hash-to-group), the curve crates' arithmetic, argon2; pinned by the RFC vectors".into(),
            "Nseed := Nsk of the KE group and Nok of the OPRF group for suites the RFC does not spell out (as the property prescribes)".into(),
        ],
        exhaustive: None,
        extra: Default::default(),
    };
    (out, ev)
}

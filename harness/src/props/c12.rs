//! C12 — total, panic-free handling of every input.

use proptest::prelude::*;
use rand::RngCore;
use serde::{Deserialize, Serialize};
use serde_json::json;

use crate::decoders;
use crate::fieldmap;
use crate::gen::{self, Tape};
use crate::known::KnownFindings;
use crate::ksf::{self, KsfSpec};
use crate::proto::*;
use crate::runner::*;

#[derive(Clone, Debug, Serialize, Deserialize, Hash)]
pub struct Case {
    pub tape: Tape,
    /// number of arbitrary byte strings per decoder
    pub n_random: u32,
    /// number of structured mutants per decoder
    pub n_mutants: u32,
    /// which over-limit length the grid uses for this case
    pub over_idx: u8,
}

pub fn strategy(cfg: &RunCfg, _s: &'static dyn Proto) -> BoxedStrategy<Case> {
    let (nr, nm) = match cfg.tier {
        Tier::Quick => (150u32, 400u32),
        Tier::Thorough => (600, 1600),
    };
    (gen::tape_plain(), 0u8..3)
        .prop_map(move |(tape, over_idx)| Case {
            tape,
            n_random: nr,
            n_mutants: nm,
            over_idx,
        })
        .boxed()
}

const LENS_OK: [usize; 5] = [0, 1, 255, 256, 65535];
const LENS_OVER: [usize; 3] = [65536, 65537, 131072];

fn st_check(step: &str, refused: Result<bool, Fail>, which: u8, what: &str) -> CaseResult {
    match refused {
        Err(f) => Err(f),
        Ok(true) => Ok(()),
        Ok(false) => Err(Fail::sig(
            format!("C12/over-limit-not-refused/{step}/{which}"),
            format!("{step} did not refuse an over-limit {what} (it returned Ok)"),
        )),
    }
}

fn call<T>(what: &str, f: impl FnOnce() -> T) -> Result<T, Fail> {
    guarded(f).map_err(|p| Fail::sig(format!("C12/panic/{what}"), format!("panic in {what}: {p}")))
}

pub fn check(s: &'static dyn Proto, c: &Case, st: &mut Stats, _k: &KnownFindings) -> CaseResult {
    ksf::set_default_spec(KsfSpec::Identity);
    let m = s.meta();
    let spec = c.tape.spec();
    let samples = decoders::samples(s, &spec, false).map_err(|e| Fail::new(format!("honest run failed: {e:?}")))?;
    let samples_b = decoders::samples(s, &spec.derive(1000), true).map_err(|e| Fail::new(format!("honest run B failed: {e:?}")))?;
    let mut r = c.tape.sub(79).rng();
    let mut nontrivial = 0u64;

    // ---- (a) arbitrary bytes and (b) mutants of valid encodings, to every decoder and codec
    for ty in ALL_TYS {
        let valid: Vec<(Codec, Vec<u8>)> = if DECODERS11.contains(&ty) {
            CODECS.iter().map(|cd| (*cd, s.ser(*cd, samples.get(ty)))).collect()
        } else {
            let setup = samples.get(Ty::ServerSetup);
            let nat = s.ser(Codec::Native, setup);
            let bytes = match ty {
                Ty::PublicKey => s.setup_public_key(setup),
                _ => fieldmap::slice(&m, Ty::ServerSetup, "server_s_sk", &nat).to_vec(),
            };
            let o = s.de(Codec::Native, ty, &bytes).map_err(|e| Fail::new(format!("valid key rejected: {e:?}")))?;
            CODECS.iter().map(|cd| (*cd, s.ser(*cd, &o))).collect()
        };
        for (cd, v) in &valid {
            // (a)
            let n_a = if *cd == Codec::Native { c.n_random } else { c.n_random / 4 };
            for i in 0..n_a {
                let len = match i % 6 {
                    0 => v.len(),
                    1 => (r.next_u32() % 8) as usize,
                    2 => v.len() + 1 + (r.next_u32() % 8) as usize,
                    3 => v.len().saturating_sub(1 + (r.next_u32() % 8) as usize),
                    _ => (r.next_u32() % 1200) as usize,
                };
                let mut b = vec![0u8; len];
                r.fill_bytes(&mut b);
                call(&format!("{}::deserialize[{cd:?}](random)", ty.name()), || {
                    let _ = s.de(*cd, ty, &b);
                })?;
                st.eval(1);
            }
            // (b)
            let n_b = if *cd == Codec::Native { c.n_mutants } else { c.n_mutants / 4 };
            for i in 0..n_b {
                let mut b = v.clone();
                if b.is_empty() {
                    continue;
                }
                let mut class = "bitflip";
                match i % 5 {
                    0 | 1 => {
                        let k = 1 + (r.next_u32() % 3);
                        for _ in 0..k {
                            let p = (r.next_u32() as usize) % b.len();
                            b[p] ^= 1 << (r.next_u32() % 8);
                        }
                    }
                    2 => {
                        class = "truncate";
                        let n = (r.next_u32() as usize) % b.len();
                        b.truncate(n);
                    }
                    3 => {
                        class = "extend";
                        let n = 1 + (r.next_u32() as usize) % 40;
                        let mut t = vec![0u8; n];
                        r.fill_bytes(&mut t);
                        b.extend_from_slice(&t);
                    }
                    _ => {
                        class = "splice";
                        // splice a chunk of another valid encoding of the same codec
                        let other_ty = ALL_TYS[(r.next_u32() as usize) % 11];
                        let o = s.ser(*cd, samples_b.get(other_ty));
                        if !o.is_empty() {
                            let n = 1 + (r.next_u32() as usize) % o.len().min(b.len());
                            let src = (r.next_u32() as usize) % (o.len() - n + 1);
                            let dst = (r.next_u32() as usize) % (b.len() - n + 1);
                            b[dst..dst + n].copy_from_slice(&o[src..src + n]);
                        }
                    }
                }
                let ok = call(&format!("{}::deserialize[{cd:?}]({class})", ty.name()), || s.de(*cd, ty, &b).is_ok())?;
                st.eval(1);
                if ok {
                    nontrivial += 1;
                    st.label(format!("mutant-accepted:{class}"));
                } else {
                    st.label(format!("mutant-rejected:{class}"));
                }
            }
        }
    }

    // ---- (b2) adversarial field values: every group-element / scalar field replaced by the
    // invalid-encoding table (identity, zero, order, out-of-range, small order, ...); whatever
    // a decoder accepts is then USED (re-serialised through every codec and fed to the step
    // that consumes it) - none of this may panic (whether it is accepted is C11's business)
    {
        let setup = samples.get(Ty::ServerSetup);
        let setup_nat = s.ser(Codec::Native, setup);
        let valid_sk = fieldmap::slice(&m, Ty::ServerSetup, "server_s_sk", &setup_nat).to_vec();
        let valid_pk = s.setup_public_key(setup);
        let mut used = 0u64;
        // valid values of the same kind that occur at OTHER positions of the same run (a message
        // whose ephemeral key equals somebody's static key, a state holding another secret key, an
        // evaluation equal to the request, ...): perfectly well-formed, but chosen by the peer
        let mut elsewhere: Vec<(fieldmap::FieldKind, String, Vec<u8>)> = Vec::new();
        for ty in DECODERS11 {
            let nat = s.ser(Codec::Native, samples.get(ty));
            for f in fieldmap::fields(&m, ty) {
                if f.kind.is_group_elem() || f.kind.is_scalar() {
                    let v = nat[f.off..f.off + f.len].to_vec();
                    if !elsewhere.iter().any(|(k, _, x)| *k == f.kind && *x == v) {
                        elsewhere.push((f.kind, format!("value of {}.{}", ty.name(), f.name), v));
                    }
                }
            }
        }
        // whatever a decoder accepted is re-serialised through every codec and fed to the step that
        // consumes it
        let use_accepted = |ty: Ty, obj: Obj, what: String| -> Result<(), Fail> {
            call(&what, || {
                        for cd in CODECS {
                            let img = s.ser(cd, &obj);
                            let _ = s.de(cd, ty, &img);
                        }
                        match ty {
                            Ty::ServerSetup => {
                                let _ = s.setup_public_key(&obj);
                                let _ = s.server_reg_start(&obj, samples.get(Ty::RegReq), b"cred");
                                for rec in [Some(samples.get(Ty::ServerReg)), None] {
                                    let _ = s.server_login_start(&mut spec.derive(40).rng(), &obj, rec, samples.get(Ty::CredReq), b"cred", None, Ids::default());
                                }
                            }
                            Ty::RegReq => {
                                let _ = s.server_reg_start(setup, &obj, b"cred");
                            }
                            Ty::RegResp => {
                                let _ = s.client_reg_finish(s.clone_obj(samples.get(Ty::ClientReg)), &mut spec.derive(41).rng(), b"sample password", &obj, Ids::default(), None);
                            }
                            Ty::RegUpload => {
                                let rec = s.server_reg_finish(&obj);
                                let _ = s.server_login_start(&mut spec.derive(42).rng(), setup, Some(&rec), samples.get(Ty::CredReq), b"cred", None, Ids::default());
                            }
                            Ty::ServerReg => {
                                let _ = s.server_login_start(&mut spec.derive(43).rng(), setup, Some(&obj), samples.get(Ty::CredReq), b"cred", None, Ids::default());
                            }
                            Ty::CredReq => {
                                let _ = s.server_login_start(&mut spec.derive(44).rng(), setup, Some(samples.get(Ty::ServerReg)), &obj, b"cred", None, Ids::default());
                            }
                            Ty::CredResp => {
                                let _ = s.client_login_finish(s.clone_obj(samples.get(Ty::ClientLogin)), b"sample password", &obj, None, Ids::default(), None);
                            }
                            Ty::ClientReg => {
                                let _ = s.client_reg_finish(obj, &mut spec.derive(45).rng(), b"sample password", samples.get(Ty::RegResp), Ids::default(), None);
                            }
                            Ty::ClientLogin => {
                                let _ = s.client_login_finish(obj, b"sample password", samples.get(Ty::CredResp), None, Ids::default(), None);
                            }
                            _ => {}
                        }
            })
        };
        for ty in ALL_TYS {
            let native = if DECODERS11.contains(&ty) {
                s.ser(Codec::Native, samples.get(ty))
            } else if ty == Ty::PublicKey {
                valid_pk.clone()
            } else {
                valid_sk.clone()
            };
            for f in fieldmap::fields(&m, ty) {
                if !(f.kind.is_group_elem() || f.kind.is_scalar()) {
                    continue;
                }
                let cur = native[f.off..f.off + f.len].to_vec();
                let mut table = decoders::invalid_encodings(&m, &f, &cur, &mut r, 2);
                for (k, name, v) in &elsewhere {
                    if *k == f.kind && v.len() == f.len && *v != cur {
                        table.push((name.clone(), v.clone()));
                    }
                }
                for (class, bad) in table {
                    let mutated = fieldmap::splice(&native, &f, &bad);
                    let what = format!("{}::deserialize(field {} := {class})", ty.name(), f.name);
                    let obj = call(&what, || s.de(Codec::Native, ty, &mutated).ok())?;
                    st.eval(1);
                    // key types: also through the raw KeGroup / key-pair API
                    if ty == Ty::PrivateKey || ty == Ty::KeyPair {
                        call(&format!("private-key API on {class}"), || {
                            let _ = s.sk_public_key(&bad);
                            let _ = s.kg_public_key(&bad);
                            let _ = s.keypair_from_private_key_slice(&bad);
                            let _ = s.sk_diffie_hellman(&bad, &valid_pk);
                            let _ = s.kg_is_zero_scalar(&bad);
                        })?;
                    }
                    if ty == Ty::PublicKey {
                        call(&format!("public-key API on {class}"), || {
                            let _ = s.sk_diffie_hellman(&valid_sk, &bad);
                            let _ = s.kg_diffie_hellman(&valid_sk, &bad);
                            let _ = s.kg_pk_roundtrip(&bad);
                        })?;
                    }
                    let Some(obj) = obj else { continue };
                    used += 1;
                    use_accepted(ty, obj, format!("use of an accepted {} with {} := {class}", ty.name(), f.name))?;
                }
            }
        }
        // (b3) values that exist only in the serde images: the derived serde forms carry enum fields
        // that the native encodings do not have (the envelope's mode); every occurrence of a variant
        // index (bincode: u32 1 -> 0) or variant name (JSON: "Internal" -> "Zero") is altered, one at
        // a time, and whatever still decodes is used like any other accepted value
        for ty in DECODERS11 {
            let obj0 = samples.get(ty);
            let bin = s.ser(Codec::Bincode, obj0);
            let mut images: Vec<(Codec, Vec<u8>, String)> = Vec::new();
            for off in 0..bin.len().saturating_sub(3) {
                if bin[off..off + 4] == [1, 0, 0, 0] {
                    let mut x = bin.clone();
                    x[off] = 0;
                    images.push((Codec::Bincode, x, format!("bincode variant index at offset {off} := 0")));
                }
            }
            let json = s.ser(Codec::Json, obj0);
            if let Ok(txt) = String::from_utf8(json) {
                for (pos, _) in txt.match_indices("\"Internal\"") {
                    let x = format!("{}\"Zero\"{}", &txt[..pos], &txt[pos + "\"Internal\"".len()..]);
                    images.push((Codec::Json, x.into_bytes(), format!("JSON variant name at {pos} := Zero")));
                }
            }
            for (cd, img, what) in images {
                let obj = call(&format!("{}::deserialize[{cd:?}] with {what}", ty.name()), || s.de(cd, ty, &img).ok())?;
                st.eval(1);
                if let Some(obj) = obj {
                    used += 1;
                    st.label("serde-only enum field altered, accepted and used");
                    use_accepted(ty, obj, format!("use of a {} decoded from its {cd:?} image with {what}", ty.name()))?;
                }
            }
        }
        st.label_n("adversarial-field-values-accepted-and-used", used);
        nontrivial += used;
    }

    // ---- (c) every protocol step fed well-formed messages/states from unrelated sessions
    {
        let pools = [&samples, &samples_b];
        let pws: [&[u8]; 2] = [b"sample password", b"other"];
        for a in pools {
            for b in pools {
                for pw in pws {
                    let setup = a.get(Ty::ServerSetup);
                    call("ServerRegistration::start(cross)", || {
                        let _ = s.server_reg_start(setup, b.get(Ty::RegReq), b"cred");
                    })?;
                    call("ClientRegistration::finish(cross)", || {
                        let _ = s.client_reg_finish(
                            s.clone_obj(a.get(Ty::ClientReg)),
                            &mut spec.derive(5).rng(),
                            pw,
                            b.get(Ty::RegResp),
                            Ids::default(),
                            None,
                        );
                    })?;
                    call("ServerRegistration::finish(cross)", || {
                        let _ = s.server_reg_finish(b.get(Ty::RegUpload));
                    })?;
                    for rec in [Some(b.get(Ty::ServerReg)), None] {
                        call("ServerLogin::start(cross)", || {
                            let _ = s.server_login_start(
                                &mut spec.derive(6).rng(),
                                setup,
                                rec,
                                b.get(Ty::CredReq),
                                b"cred",
                                None,
                                Ids::default(),
                            );
                        })?;
                    }
                    call("ClientLogin::finish(cross)", || {
                        let _ = s.client_login_finish(
                            s.clone_obj(a.get(Ty::ClientLogin)),
                            pw,
                            b.get(Ty::CredResp),
                            None,
                            Ids::default(),
                            None,
                        );
                    })?;
                    call("ServerLogin::finish(cross)", || {
                        let _ = s.server_login_finish(s.clone_obj(a.get(Ty::ServerLogin)), b.get(Ty::CredFin));
                    })?;
                    st.eval(7);
                    nontrivial += 7;
                }
            }
        }
        st.label_n("cross-session-deliveries", 56);
    }

    // ---- (d) parameter lengths: one parameter at a time
    let over = LENS_OVER[c.over_idx as usize % 3];
    let mut lens: Vec<usize> = LENS_OK.to_vec();
    lens.push(over);
    let setup = samples.get(Ty::ServerSetup);
    #[derive(Clone, Copy, Debug, PartialEq)]
    enum P {
        Pw,
        Cred,
        IdU,
        IdS,
        Ctx,
    }
    for which in [P::Pw, P::Cred, P::IdU, P::IdS, P::Ctx] {
        for &len in &lens {
            let val = gen::expand(len, len as u64 + 17);
            let base = b"base".to_vec();
            let pick = |p: P| if p == which { val.clone() } else { base.clone() };
            let (pw, cred, idu, ids_, ctx) = (pick(P::Pw), pick(P::Cred), pick(P::IdU), pick(P::IdS), pick(P::Ctx));
            let ids = Ids {
                client: Some(&idu),
                server: Some(&ids_),
            };
            let is_over = len > 65535 && which != P::Cred;
            let what = format!("{which:?} of {len} bytes");
            // registration
            let reg = call(&format!("registration with {what}"), || -> PResult<(Obj, Vec<u8>)> {
                let (req, cst) = s.client_reg_start(&mut spec.derive(20).rng(), &pw)?;
                let resp = s.server_reg_start(setup, &req, &cred)?;
                let fin = s.client_reg_finish(cst, &mut spec.derive(21).rng(), &pw, &resp, ids, None)?;
                Ok((s.server_reg_finish(&fin.upload), fin.export_key))
            })?;
            st.eval(1);
            let reg_must_fail = is_over && which != P::Ctx;
            match (&reg, reg_must_fail) {
                (Ok(_), true) => {
                    return Err(Fail::sig(
                        format!("C12/over-limit-accepted/registration/{which:?}"),
                        format!("registration completed with an over-limit {what}"),
                    ))
                }
                (Err(e), false) => {
                    return Err(Fail::sig(
                        format!("C12/in-range-refused/registration/{which:?}"),
                        format!("registration refused an in-range {what}: {e:?}"),
                    ))
                }
                _ => {}
            }
            // login (needs a record: when registration must fail, register with the base value instead)
            let record = match reg {
                Ok((rec, _)) => rec,
                Err(_) => {
                    let pw_r = if which == P::Pw { base.clone() } else { pw.clone() };
                    let ids_r = Ids {
                        client: Some(if which == P::IdU { &base } else { &idu }),
                        server: Some(if which == P::IdS { &base } else { &ids_ }),
                    };
                    let (req, cst) = s.client_reg_start(&mut spec.derive(20).rng(), &pw_r).map_err(|e| Fail::new(format!("{e:?}")))?;
                    let resp = s.server_reg_start(setup, &req, &cred).map_err(|e| Fail::new(format!("{e:?}")))?;
                    let fin = s
                        .client_reg_finish(cst, &mut spec.derive(21).rng(), &pw_r, &resp, ids_r, None)
                        .map_err(|e| Fail::new(format!("control registration failed: {e:?}")))?;
                    s.server_reg_finish(&fin.upload)
                }
            };
            let login = call(&format!("login with {what}"), || -> PResult<(Vec<u8>, Vec<u8>)> {
                let (req, cst) = s.client_login_start(&mut spec.derive(22).rng(), &pw)?;
                let (resp, sst) =
                    s.server_login_start(&mut spec.derive(23).rng(), setup, Some(&record), &req, &cred, Some(&ctx), ids)?;
                let lf = s.client_login_finish(cst, &pw, &resp, Some(&ctx), ids, None)?;
                let sk = s.server_login_finish(sst, &lf.fin)?;
                Ok((lf.session_key, sk))
            })?;
            st.eval(1);
            match (&login, is_over) {
                (Ok(_), true) => {
                    return Err(Fail::sig(
                        format!("C12/over-limit-accepted/login/{which:?}"),
                        format!("login completed with an over-limit {what}"),
                    ))
                }
                (Err(e), false) => {
                    return Err(Fail::sig(
                        format!("C12/in-range-refused/login/{which:?}"),
                        format!("login refused an in-range {what}: {e:?}"),
                    ))
                }
                (Ok((a, b)), false) => {
                    if a != b {
                        return Err(Fail::new(format!("session keys differ with {what}")));
                    }
                }
                _ => {}
            }
            if is_over {
                // per-step refusal: the step that has to encode the over-limit value must itself
                // return an error (a later step failing is not enough: "refused, never wrapped")
                let b_ids = Ids {
                    client: Some(&base),
                    server: Some(&base),
                };
                let step = |name: &str, r: Result<bool, Fail>| -> CaseResult {
                    st_check(name, r, which as u8, &what)
                };
                match which {
                    P::Pw => {
                        // blinding does not length-prefix the password; the finish steps do
                        let r = call("ClientRegistration::finish(over-limit password)", || {
                            match s.client_reg_start(&mut spec.derive(30).rng(), &pw) {
                                Err(_) => true,
                                Ok((req, cst)) => match s.server_reg_start(setup, &req, &cred) {
                                    Err(_) => true,
                                    Ok(resp) => s.client_reg_finish(cst, &mut spec.derive(31).rng(), &pw, &resp, b_ids, None).is_err(),
                                },
                            }
                        });
                        step("ClientRegistration::start/finish", r)?;
                        let r = call("ClientLogin::finish(over-limit password)", || {
                            match s.client_login_start(&mut spec.derive(32).rng(), &pw) {
                                Err(_) => true,
                                Ok((req, cst)) => {
                                    match s.server_login_start(&mut spec.derive(33).rng(), setup, Some(&record), &req, &cred, Some(&base), b_ids) {
                                        Err(_) => true,
                                        Ok((resp, _)) => s.client_login_finish(cst, &pw, &resp, Some(&base), b_ids, None).is_err(),
                                    }
                                }
                            }
                        });
                        step("ClientLogin::start/finish", r)?;
                        // the finish steps take the password again: a state started (or restored)
                        // with an in-range password, finished with an over-limit one
                        let r = call("ClientRegistration::finish(state from a short password, over-limit password)", || {
                            let (req, cst) = s.client_reg_start(&mut spec.derive(50).rng(), &base).expect("HARNESS-BUG: reg start");
                            let resp = s.server_reg_start(setup, &req, &cred).expect("HARNESS-BUG: server reg start");
                            s.client_reg_finish(cst, &mut spec.derive(51).rng(), &pw, &resp, b_ids, None).is_err()
                        });
                        step("ClientRegistration::finish(other password)", r)?;
                        let r = call("ClientLogin::finish(state from a short password, over-limit password)", || {
                            let (req, cst) = s.client_login_start(&mut spec.derive(52).rng(), &base).expect("HARNESS-BUG: login start");
                            let (resp, _) = s
                                .server_login_start(&mut spec.derive(53).rng(), setup, Some(&record), &req, &cred, Some(&base), b_ids)
                                .expect("HARNESS-BUG: server start");
                            s.client_login_finish(cst, &pw, &resp, Some(&base), b_ids, None).is_err()
                        });
                        step("ClientLogin::finish(other password)", r)?;
                    }
                    P::IdU | P::IdS | P::Ctx => {
                        let (req, cst) = s.client_login_start(&mut spec.derive(34).rng(), &base).map_err(|e| Fail::new(format!("{e:?}")))?;
                        let r = call("ServerLogin::start(over-limit parameter)", || {
                            s.server_login_start(&mut spec.derive(35).rng(), setup, Some(&record), &req, &cred, Some(&ctx), ids).is_err()
                        });
                        step("ServerLogin::start", r)?;
                        // the client, given a response made with in-range parameters
                        let (resp, _) = s
                            .server_login_start(&mut spec.derive(36).rng(), setup, Some(&record), &req, &cred, Some(&base), b_ids)
                            .map_err(|e| Fail::new(format!("control server start failed: {e:?}")))?;
                        let r = call("ClientLogin::finish(over-limit parameter)", || {
                            s.client_login_finish(cst, &base, &resp, Some(&ctx), ids, None).is_err()
                        });
                        step("ClientLogin::finish", r)?;
                        if which != P::Ctx {
                            let r = call("ClientRegistration::finish(over-limit identity)", || {
                                let (rq, cs) = s.client_reg_start(&mut spec.derive(37).rng(), &base).expect("HARNESS-BUG: reg start");
                                let rp = s.server_reg_start(setup, &rq, &cred).expect("HARNESS-BUG: server reg start");
                                s.client_reg_finish(cs, &mut spec.derive(38).rng(), &base, &rp, ids, None).is_err()
                            });
                            step("ClientRegistration::finish", r)?;
                        }
                    }
                    P::Cred => {}
                }
                st.eval(3);
                nontrivial += 2;
                st.label(format!("over-limit:{which:?}:{len}"));
            } else {
                st.label(format!("in-range:{which:?}:{len}"));
            }
        }
    }
    // ---- (e) key-stretching instances with awkward parameters: an Argon2 instance whose configured
    // output length differs from the suite's hash length must fail (or work) cleanly, never panic
    {
        let (req, cst) = s.client_reg_start(&mut spec.derive(60).rng(), b"pw").map_err(|e| Fail::new(format!("{e:?}")))?;
        let resp = s.server_reg_start(setup, &req, b"cred").map_err(|e| Fail::new(format!("{e:?}")))?;
        for out_len in [4u32, m.nh as u32 - 1, m.nh as u32, m.nh as u32 + 1, 2 * m.nh as u32] {
            let k = KsfSpec::Argon2Out { m_kib: 8, t: 1, p: 1, out_len };
            call(&format!("ClientRegistration::finish with Argon2 output_len={out_len} (hash length {})", m.nh), || {
                let _ = s.client_reg_finish(s.clone_obj(&cst), &mut spec.derive(61).rng(), b"pw", &resp, Ids::default(), Some(&k));
            })?;
            st.eval(1);
        }
        st.label("ksf:argon2-output-length-grid");
    }
    st.nontrivial_bulk(hash_of(&(m.name, c)), nontrivial);
    st.sample(|| json!({"suite": m.name, "random_strings_per_decoder": c.n_random, "mutants_per_decoder": c.n_mutants,
        "cross_session_deliveries": 56, "length_grid": {"in_range": LENS_OK, "over_limit": over}}));
    Ok(())
}

pub const BUDGET: Budget = Budget {
    quick: (8, 5, 3),
    thorough: (80, 40, 16),
    shrink: 4,
};

pub fn run(cfg: &RunCfg) -> (Outcome, EvidenceExtra) {
    let out = run_property(cfg, "C12", crate::suites::suites20(), BUDGET, |s| strategy(cfg, s), check);
    let ev = EvidenceExtra {
        rule: "per generated case and suite: (a) arbitrary byte strings (0..1200 bytes, and lengths around the valid one) and (b) mutants of valid encodings (1-3 bit flips, truncation, extension, chunks spliced in from other messages) to the native, bincode and JSON decoders of all 11 types and of PublicKey/PrivateKey/KeyPair; (b2) every group-element/scalar field of every type replaced by each entry of the invalid-encoding table (identity, zero, order, out-of-range, small order, non-canonical) and by every valid value of the same kind found at another position of the same run (e.g. an ephemeral key equal to a static key), plus (b3) every enum variant that exists only in the serde images (the envelope mode) switched in the bincode and JSON images, and, if a decoder accepts it, the value is re-serialised through all codecs and fed to the step that consumes it, plus the raw key API on the same bytes; (c) every protocol step (ServerRegistration::start, ClientRegistration::finish, ServerRegistration::finish, ServerLogin::start with and without record, ClientLogin::finish, ServerLogin::finish) fed well-formed values from two unrelated runs/servers/passwords in all combinations; (d) each of password, credential id, client identity, server identity, context set to lengths {0,1,255,256,65535} and one of {65536,65537,131072} with the others fixed. Every call runs under catch_unwind: a panic is a violation. (d) also asserts: in-range lengths complete registration and login with equal keys; over-limit password/identity/context never complete (credential ids of any length work). evaluation = one call; non-trivial = accepted mutants, cross-session deliveries and over-limit runs".into(),
        assumptions: vec!["non-termination is caught by the watchdog and reported as inconclusive (exit 2)".into()],
        exhaustive: None,
        extra: Default::default(),
    };
    (out, ev)
}

//! C14 — the OPRF is oblivious and keyed per credential.

use proptest::prelude::*;
use serde::{Deserialize, Serialize};
use serde_json::json;

use crate::fieldmap::{self, slice};
use crate::flow;
use crate::gen::{self, BSpec, Tape};
use crate::known::KnownFindings;
use crate::ksf::{self, KsfSpec};
use crate::proto::*;
use crate::refmodel::{self as rm, Suite};
use crate::runner::*;
use crate::{ensure, ensure_eq};

#[derive(Clone, Debug, Serialize, Deserialize, Hash, PartialEq, Eq)]
pub enum CredPair {
    /// second = first || suffix
    Extension(#[serde(with = "gen::hexser")] Vec<u8>),
    /// second = proper prefix of first (first must be non-empty, else falls back to Extension)
    Prefix(u16),
    /// first vs empty
    VsEmpty,
    Unrelated(BSpec),
}

#[derive(Clone, Debug, Serialize, Deserialize, Hash)]
pub struct Case {
    pub pw: BSpec,
    pub pw2: BSpec,
    pub cred: BSpec,
    pub cred_pair: CredPair,
    pub ksf: Option<KsfSpec>,
    pub explicit_ids: bool,
    pub tape: Tape,
}

pub fn strategy(s: &'static dyn Proto) -> BoxedStrategy<Case> {
    (
        gen::bytes_param(),
        gen::bytes_small(),
        gen::cred_id(),
        prop_oneof![
            3 => proptest::collection::vec(any::<u8>(), 1..4).prop_map(CredPair::Extension),
            3 => any::<u16>().prop_map(CredPair::Prefix),
            1 => Just(CredPair::VsEmpty),
            3 => gen::cred_id().prop_map(CredPair::Unrelated),
        ],
        super::c01::ksf_for(s, 0),
        any::<bool>(),
        gen::tape_plain(),
    )
        .prop_map(|(pw, pw2, cred, cred_pair, ksf, explicit_ids, tape)| Case {
            pw,
            pw2,
            cred,
            cred_pair,
            ksf,
            explicit_ids,
            tape,
        })
        .boxed()
}

fn second_cred(c: &Case, cred: &[u8]) -> Vec<u8> {
    let ext = |x: &[u8]| {
        let mut v = cred.to_vec();
        v.extend_from_slice(x);
        v
    };
    let out = match &c.cred_pair {
        CredPair::Extension(x) => ext(x),
        CredPair::Prefix(k) => {
            if cred.is_empty() {
                ext(&[0])
            } else {
                cred[..gen::pick(*k, cred.len())].to_vec()
            }
        }
        CredPair::VsEmpty => {
            if cred.is_empty() {
                vec![0]
            } else {
                Vec::new()
            }
        }
        CredPair::Unrelated(b) => b.bytes(),
    };
    if out == cred {
        ext(&[1])
    } else {
        out
    }
}

pub fn check(s: &'static dyn Proto, c: &Case, st: &mut Stats, _k: &KnownFindings) -> CaseResult {
    ksf::set_default_spec(KsfSpec::Identity);
    let m = s.meta();
    let suite = Suite::of(&m);
    let pw = c.pw.bytes();
    let mut pw2 = c.pw2.bytes();
    if pw2 == pw {
        pw2.push(b'~');
    }
    let cred = c.cred.bytes();
    let cred2 = second_cred(c, &cred);
    let (idu, ids_) = if c.explicit_ids {
        (Some(b"user".to_vec()), Some(b"srv".to_vec()))
    } else {
        (None, None)
    };
    let ids = Ids {
        client: idu.as_deref(),
        server: ids_.as_deref(),
    };
    let t = |i: u64| c.tape.sub(i);
    let e = |what: &str, x: PErr| Fail::new(format!("honest step failed ({what}): {x:?}"));

    let setup_a = s.setup_new(&mut t(0).rng());
    let sa = s.ser(Codec::Native, &setup_a);
    let seed_a = slice(&m, Ty::ServerSetup, "oprf_seed", &sa).to_vec();
    let sk_a = slice(&m, Ty::ServerSetup, "server_s_sk", &sa).to_vec();
    let fake_a = slice(&m, Ty::ServerSetup, "fake_sk", &sa).to_vec();
    // same static key pair, other OPRF seed
    let other = s.setup_new(&mut t(1).rng());
    let so = s.ser(Codec::Native, &other);
    let seed_b = slice(&m, Ty::ServerSetup, "oprf_seed", &so).to_vec();
    let sk_b = slice(&m, Ty::ServerSetup, "server_s_sk", &so).to_vec();
    let mk_setup = |seed: &[u8], sk: &[u8]| -> Result<Obj, Fail> {
        let mut b = seed.to_vec();
        b.extend_from_slice(sk);
        b.extend_from_slice(&fake_a);
        s.de(Codec::Native, Ty::ServerSetup, &b).map_err(|x| Fail::new(format!("cannot build setup: {x:?}")))
    };
    let setup_seed_b = mk_setup(&seed_b, &sk_a)?; // only the seed differs
    let setup_key_b = mk_setup(&seed_a, &sk_b)?; // only the static key differs

    let up_fields = |up: &Obj| {
        let b = s.ser(Codec::Native, up);
        (
            slice(&m, Ty::RegUpload, "masking_key", &b).to_vec(),
            slice(&m, Ty::RegUpload, "client_s_pk", &b).to_vec(),
            b,
        )
    };
    // (i) blinding tape changes nothing the client derives
    let r1 = flow::register(s, &setup_a, &pw, &cred, ids, c.ksf.as_ref(), &t(10), &t(20)).map_err(|x| e("register 1", x))?;
    let r2 = flow::register(s, &setup_a, &pw, &cred, ids, c.ksf.as_ref(), &t(11), &t(20)).map_err(|x| e("register 2", x))?;
    let q1 = s.ser(Codec::Native, &r1.req);
    let q2 = s.ser(Codec::Native, &r2.req);
    ensure!(q1 != q2, "two registration requests on independent blinding tapes are identical (request does not depend on the blind)");
    let (mk1, cpk1, up1) = up_fields(&r1.upload);
    let (mk2, cpk2, up2) = up_fields(&r2.upload);
    ensure_eq!(mk1, mk2, "masking key depends on the blinding randomness");
    ensure_eq!(cpk1, cpk2, "client public key depends on the blinding randomness");
    ensure_eq!(up1, up2, "registration upload depends on the blinding randomness (equal finish tapes)");
    ensure_eq!(r1.export_key, r2.export_key, "export key depends on the blinding randomness");
    st.eval(5);

    // (ii) changing exactly one of password / credential id / OPRF seed changes every derived secret
    let variants: Vec<(&str, PResult<flow::RegOut>)> = vec![
        ("password", flow::register(s, &setup_a, &pw2, &cred, ids, c.ksf.as_ref(), &t(10), &t(20))),
        ("credential id", flow::register(s, &setup_a, &pw, &cred2, ids, c.ksf.as_ref(), &t(10), &t(20))),
        ("OPRF seed", flow::register(s, &setup_seed_b, &pw, &cred, ids, c.ksf.as_ref(), &t(10), &t(20))),
    ];
    for (what, rv) in variants {
        let rv = rv.map_err(|x| e(what, x))?;
        let (mk, cpk, _) = up_fields(&rv.upload);
        ensure!(mk != mk1, "masking key unchanged after changing only the {what}");
        ensure!(cpk != cpk1, "client public key unchanged after changing only the {what}");
        ensure!(rv.export_key != r1.export_key, "export key unchanged after changing only the {what}");
        if what != "password" {
            // same password, same blind: the request is the same, the evaluation must differ
            ensure_eq!(s.ser(Codec::Native, &rv.req), q1, "request differs although password and blinding tape are equal");
            let ev_a = s.ser(Codec::Native, &rv.resp)[..m.noe].to_vec();
            ensure!(ev_a != s.ser(Codec::Native, &r1.resp)[..m.noe], "evaluation element unchanged after changing only the {what}");
        }
        st.eval(4);
    }
    // the static key does NOT enter: same seed, other key pair => same masking key / client key
    let rk = flow::register(s, &setup_key_b, &pw, &cred, ids, c.ksf.as_ref(), &t(10), &t(20)).map_err(|x| e("register key_b", x))?;
    let (mkk, cpkk, _) = up_fields(&rk.upload);
    ensure_eq!(mkk, mk1, "masking key depends on the server's static key");
    ensure_eq!(cpkk, cpk1, "client key pair depends on the server's static key");
    st.eval(2);

    // (iii) the evaluation is one function of (seed, credential id, blinded element)
    let blinded = q1.clone();
    let oprf_key = suite.oprf_key(&seed_a, &cred).ok_or_else(|| Fail::new("reference oprf_key failed"))?;
    let ev_ref = rm::oprf_evaluate(m.oprf, &oprf_key, &blinded).ok_or_else(|| Fail::new("reference evaluate failed"))?;
    let ev_reg = s.ser(Codec::Native, &r1.resp)[..m.noe].to_vec();
    ensure_eq!(ev_reg, ev_ref, "ServerRegistration::start evaluation != oprf_key(seed, cred) * request (reference)");
    let ev_reg_keyb = s.ser(Codec::Native, &rk.resp)[..m.noe].to_vec();
    ensure_eq!(ev_reg_keyb, ev_ref, "registration evaluation depends on the static key");
    // a credential request carrying the same blinded element
    let (lreq0, _) = s.client_login_start(&mut t(30).rng(), &pw).map_err(|x| e("login start", x))?;
    let lb = s.ser(Codec::Native, &lreq0);
    let f = fieldmap::field(&m, Ty::CredReq, "blinded_element");
    let lreq = s
        .de(Codec::Native, Ty::CredReq, &fieldmap::splice(&lb, &f, &blinded))
        .map_err(|x| Fail::new(format!("cannot build credential request: {x:?}")))?;
    let login_ev = |setup: &Obj, rec: Option<&Obj>, tape: u64| -> Result<Vec<u8>, Fail> {
        let (resp, _) = s
            .server_login_start(&mut t(tape).rng(), setup, rec, &lreq, &cred, None, ids)
            .map_err(|x| e("server login start", x))?;
        Ok(s.ser(Codec::Native, &resp)[..m.noe].to_vec())
    };
    for (what, ev) in [
        ("real record", login_ev(&setup_a, Some(&r1.record), 40)?),
        ("real record, other server tape", login_ev(&setup_a, Some(&r1.record), 41)?),
        ("another user's record", login_ev(&setup_a, Some(&rk.record), 42)?),
        ("no record", login_ev(&setup_a, None, 43)?),
        ("other static key", login_ev(&setup_key_b, Some(&r1.record), 44)?),
        ("other static key, no record", login_ev(&setup_key_b, None, 45)?),
    ] {
        ensure_eq!(ev, ev_ref, "ServerLogin::start evaluation ({what}) != oprf_key(seed, cred) * request");
        st.eval(1);
    }
    let ev_seed_b = login_ev(&setup_seed_b, Some(&r1.record), 46)?;
    ensure!(ev_seed_b != ev_ref, "evaluation does not depend on the OPRF seed");

    // (iv) login: blind differs per session, the recovered secrets are the same
    let la = flow::login(s, &setup_a, Some(&r1.record), &pw, &cred, None, ids, None, ids, c.ksf.as_ref(), &t(50), &t(51))
        .map_err(|x| e("login a", x))?;
    let lb2 = flow::login(s, &setup_a, Some(&r1.record), &pw, &cred, None, ids, None, ids, c.ksf.as_ref(), &t(52), &t(53))
        .map_err(|x| e("login b", x))?;
    let ra = s.ser(Codec::Native, &la.req);
    let rb = s.ser(Codec::Native, &lb2.req);
    ensure!(ra[..m.noe] != rb[..m.noe], "two login requests carry the same blinded element");
    let ca = la.client.as_ref().map_err(|x| e("client finish a", x.clone()))?;
    let cb = lb2.client.as_ref().map_err(|x| e("client finish b", x.clone()))?;
    ensure_eq!(ca.export_key, cb.export_key, "export key differs between sessions");
    ensure_eq!(ca.export_key, r1.export_key, "export key at login");
    st.eval(3);

    st.label(format!("cred-pair:{}", match &c.cred_pair {
        CredPair::Extension(_) => "extension",
        CredPair::Prefix(_) => "prefix",
        CredPair::VsEmpty => "vs-empty",
        CredPair::Unrelated(_) => "unrelated",
    }));
    st.label(gen::len_class(cred.len()).replace("len", "cred"));
    st.nontrivial(&(m.name, c));
    st.sample(|| json!({"suite": m.name, "pw": c.pw.describe(), "cred": c.cred.describe(), "cred2_len": cred2.len(),
        "ksf": format!("{:?}", c.ksf), "evaluation_element": hex::encode(&ev_ref)}));
    Ok(())
}

pub const BUDGET: Budget = Budget {
    quick: (240, 90, 32),
    thorough: (10000, 3000, 1000),
    shrink: 60,
};

pub fn run(cfg: &RunCfg) -> (Outcome, EvidenceExtra) {
    let out = run_property(cfg, "C14", crate::suites::suites20(), BUDGET, strategy, check);
    let ev = EvidenceExtra {
        rule: "case = (password pair, credential-id pair: extension/prefix/vs-empty/unrelated, two setups, pairs of independent blinding tapes, one shared finish tape). Metamorphic oracle: (i) two registrations differing only in the blinding tape: requests differ, masking key, client key, upload and export key identical; (ii) changing exactly one of password / credential id / OPRF seed changes masking key, client public key, export key (and the evaluation for an equal request); another static key with the same seed changes none of them; (iii) the evaluation element of ServerRegistration::start and of ServerLogin::start (real record, another record, no record, other static key, other server tape) equals the reference oprf_key(seed, cred)*request; (iv) two logins have different blinded elements and the same export key. evaluation = one relation; every case is a set of run pairs, all non-trivial; distinct by hash".into(),
        assumptions: vec!["'unrelated' is decided as inequality of the derived values".into()],
        exhaustive: None,
        extra: Default::default(),
    };
    (out, ev)
}

//! C13 — persisted state survives save / restart unchanged.

use proptest::prelude::*;
use serde::{Deserialize, Serialize};
use serde_json::json;

use crate::flow;
use crate::gen::{self, BSpec, IdSpec, Tape};
use crate::known::KnownFindings;
use crate::ksf::{self, KsfSpec};
use crate::proto::*;
use crate::runner::*;
use crate::ensure;

/// codec index per persistence point: 0 none, 1 native, 2 bincode, 3 JSON
/// points: [server setup (before every server operation), password file,
///          client registration state, client login state, server login state]
pub type Plan = [u8; 5];

#[derive(Clone, Debug, Serialize, Deserialize, Hash)]
pub struct Case {
    pub pw: BSpec,
    pub cred: BSpec,
    pub id_u: IdSpec,
    pub id_s: IdSpec,
    pub ctx: Option<BSpec>,
    pub ksf: Option<KsfSpec>,
    pub tape: Tape,
    /// 0: the 4 uniform, 15 single-point and 32 generated mixed plans; 1: all 4^5 plans
    pub mode: u8,
    pub mixed_seed: u64,
    /// adversarially routed histories (see `crate::history`) in which most conversations save and
    /// restore a kept state between two steps; compared with the same history without the reloads
    #[serde(default)]
    pub histories: Vec<Vec<[u8; 8]>>,
}

pub fn strategy(cfg: &RunCfg, s: &'static dyn Proto) -> BoxedStrategy<Case> {
    let mode = match cfg.tier {
        Tier::Quick => 0u8,
        Tier::Thorough => 1,
    };
    (
        gen::bytes_small(),
        gen::cred_id(),
        prop_oneof![Just(IdSpec::Absent), gen::bytes_small().prop_map(IdSpec::Explicit)],
        prop_oneof![Just(IdSpec::Absent), gen::bytes_small().prop_map(IdSpec::Explicit)],
        gen::opt_ctx(gen::bytes_small()),
        super::c01::ksf_for(s, 0),
        gen::tape(),
        any::<u64>(),
        prop::collection::vec(super::c07::history_with(6), 8),
    )
        .prop_map(move |(pw, cred, id_u, id_s, ctx, ksf, tape, mixed_seed, histories)| Case {
            pw,
            cred,
            id_u,
            id_s,
            ctx,
            ksf,
            tape,
            mode,
            mixed_seed,
            histories,
        })
        .boxed()
}

fn codec(i: u8) -> Option<Codec> {
    match i {
        1 => Some(Codec::Native),
        2 => Some(Codec::Bincode),
        3 => Some(Codec::Json),
        _ => None,
    }
}

fn reload(s: &dyn Proto, which: u8, o: Obj, what: &str) -> Result<Obj, Fail> {
    match codec(which) {
        None => Ok(o),
        Some(cd) => {
            let before = s.ser(Codec::Native, &o);
            let img = s.ser(cd, &o);
            let back = s
                .de(cd, o.ty, &img)
                .map_err(|e| Fail::new(format!("{what}: saved {cd:?} image does not load: {e:?}")))?;
            let after = s.ser(Codec::Native, &back);
            if before != after {
                return Err(Fail::new(format!(
                    "{what}: native encoding changed across a {cd:?} save/reload: before={} after={}",
                    hex::encode(before),
                    hex::encode(after)
                )));
            }
            Ok(back)
        }
    }
}

type Transcript = Vec<(&'static str, Vec<u8>)>;

fn run_plan(s: &'static dyn Proto, c: &Case, plan: &Plan) -> Result<Transcript, Fail> {
    let pw = c.pw.bytes();
    let cred = c.cred.bytes();
    let ctx = flow::opt(&c.ctx);
    let t = |i: u64| c.tape.sub(i);
    let mut tr: Transcript = Vec::new();
    let er = |what: &str, e: PErr| Fail::new(format!("step failed under plan {plan:?} ({what}): {e:?}"));
    let mut setup = s.setup_new(&mut t(0).rng());
    let server_pk = s.setup_public_key(&setup);
    let id_u = c.id_u.resolve(&[]);
    let id_s = c.id_s.resolve(&server_pk);
    let ids = Ids {
        client: id_u.as_deref(),
        server: id_s.as_deref(),
    };
    tr.push(("setup", s.ser(Codec::Native, &setup)));
    // registration
    let (req, cst) = s.client_reg_start(&mut t(1).rng(), &pw).map_err(|e| er("client reg start", e))?;
    tr.push(("registration_request", s.ser(Codec::Native, &req)));
    let cst = reload(s, plan[2], cst, "client registration state")?;
    tr.push(("client_registration_state", s.ser(Codec::Native, &cst)));
    setup = reload(s, plan[0], setup, "server setup")?;
    let resp = s.server_reg_start(&setup, &req, &cred).map_err(|e| er("server reg start", e))?;
    tr.push(("registration_response", s.ser(Codec::Native, &resp)));
    let fin = s
        .client_reg_finish(cst, &mut t(2).rng(), &pw, &resp, ids, c.ksf.as_ref())
        .map_err(|e| er("client reg finish", e))?;
    tr.push(("registration_upload", s.ser(Codec::Native, &fin.upload)));
    tr.push(("export_key_reg", fin.export_key.clone()));
    tr.push(("server_s_pk_reg", fin.server_s_pk.clone()));
    let rec = s.server_reg_finish(&fin.upload);
    let rec = reload(s, plan[1], rec, "password file")?;
    tr.push(("password_file", s.ser(Codec::Native, &rec)));
    // login
    let (lreq, lst) = s.client_login_start(&mut t(3).rng(), &pw).map_err(|e| er("client login start", e))?;
    tr.push(("credential_request", s.ser(Codec::Native, &lreq)));
    let lst = reload(s, plan[3], lst, "client login state")?;
    tr.push(("client_login_state", s.ser(Codec::Native, &lst)));
    setup = reload(s, plan[0], setup, "server setup (before login)")?;
    let (lresp, sst) = s
        .server_login_start(&mut t(4).rng(), &setup, Some(&rec), &lreq, &cred, ctx.as_deref(), ids)
        .map_err(|e| er("server login start", e))?;
    tr.push(("credential_response", s.ser(Codec::Native, &lresp)));
    let sst = reload(s, plan[4], sst, "server login state")?;
    tr.push(("server_login_state", s.ser(Codec::Native, &sst)));
    let lf = s
        .client_login_finish(lst, &pw, &lresp, ctx.as_deref(), ids, c.ksf.as_ref())
        .map_err(|e| er("client login finish", e))?;
    tr.push(("credential_finalization", s.ser(Codec::Native, &lf.fin)));
    tr.push(("session_key_client", lf.session_key.clone()));
    tr.push(("export_key_login", lf.export_key.clone()));
    tr.push(("server_s_pk_login", lf.server_s_pk.clone()));
    let sk = s.server_login_finish(sst, &lf.fin).map_err(|e| er("server login finish", e))?;
    tr.push(("session_key_server", sk));
    // a fake-record login with the (possibly reloaded) setup
    setup = reload(s, plan[0], setup, "server setup (before fake login)")?;
    let (fresp, fst) = s
        .server_login_start(&mut t(5).rng(), &setup, None, &lreq, &cred, ctx.as_deref(), ids)
        .map_err(|e| er("server login start (no record)", e))?;
    tr.push(("fake_credential_response", s.ser(Codec::Native, &fresp)));
    let fst = reload(s, plan[4], fst, "server login state (fake)")?;
    tr.push(("fake_server_login_state", s.ser(Codec::Native, &fst)));
    tr.push(("setup_final", s.ser(Codec::Native, &setup)));
    Ok(tr)
}

pub fn plans_for(c: &Case) -> Vec<Plan> {
    let mut v: Vec<Plan> = Vec::new();
    if c.mode == 1 {
        for n in 0..1024u32 {
            let mut p = [0u8; 5];
            let mut x = n;
            for d in p.iter_mut() {
                *d = (x % 4) as u8;
                x /= 4;
            }
            v.push(p);
        }
    } else {
        for cd in 0..4u8 {
            v.push([cd; 5]);
        }
        for point in 0..5 {
            for cd in 1..4u8 {
                let mut p = [0u8; 5];
                p[point] = cd;
                v.push(p);
            }
        }
        let mut x = c.mixed_seed | 1;
        for _ in 0..32 {
            let mut p = [0u8; 5];
            for d in p.iter_mut() {
                x ^= x << 13;
                x ^= x >> 7;
                x ^= x << 17;
                *d = (x % 4) as u8;
            }
            v.push(p);
        }
    }
    v.sort();
    v.dedup();
    v
}

pub fn check(s: &'static dyn Proto, c: &Case, st: &mut Stats, _k: &KnownFindings) -> CaseResult {
    ksf::set_default_spec(KsfSpec::Identity);
    let m = s.meta();
    let base = run_plan(s, c, &[0; 5])?;
    let plans = plans_for(c);
    let mut n = 0u64;
    for p in &plans {
        let tr = run_plan(s, c, p)?;
        st.eval(1);
        ensure!(tr.len() == base.len(), "transcript length differs under plan {p:?}");
        for ((na, a), (nb, b)) in tr.iter().zip(base.iter()) {
            assert!(na == nb, "HARNESS-BUG: transcript order");
            if a != b {
                return Err(Fail::new(format!(
                    "plan {p:?} (0 none,1 native,2 bincode,3 json at [setup,file,client-reg,client-login,server-login]) changes '{na}': reloaded={} uninterrupted={}",
                    hex::encode(a),
                    hex::encode(b)
                )));
            }
        }
        if p.iter().any(|x| *x != 0) {
            n += 1;
        }
    }
    // ---- second part: whole adversarial histories with reloads in between vs. the same history
    // without them (same tapes): every observable outcome - messages, states, keys, refusals - equal
    let mut hs = crate::history::HistoryStats::default();
    for (i, h) in c.histories.iter().enumerate() {
        let mut data = vec![0u8, (c.mixed_seed as u8).wrapping_add(i as u8)];
        for o in h {
            data.extend_from_slice(o);
        }
        let (mut with, mut without) = (Vec::new(), Vec::new());
        let mut scratch = crate::history::HistoryStats::default();
        let ra = crate::history::run_history_traced(s, &data, &mut hs, true, &mut with);
        let rb = crate::history::run_history_traced(s, &data, &mut scratch, false, &mut without);
        if let Err(e) = &ra {
            if e.starts_with("C13 ") {
                return Err(Fail::new(format!("history #{i}: {e}")));
            }
        }
        // a failure that is another property's subject stops both runs at the same point, or it is
        // a consequence of the reloads
        let tag = |r: &Result<(), String>| r.as_ref().err().map(|e| e[..3].to_string());
        if let Some(k) = (0..with.len().max(without.len())).find(|k| with.get(*k) != without.get(*k)) {
            return Err(Fail::new(format!(
                "history #{i}: observable outcome #{k} differs between the run in which kept states were saved and reloaded and the uninterrupted run on the same tapes: reloaded={} uninterrupted={}",
                with.get(k).map(hex::encode).unwrap_or_else(|| "(run ended)".into()),
                without.get(k).map(hex::encode).unwrap_or_else(|| "(run ended)".into())
            )));
        }
        ensure!(tag(&ra) == tag(&rb), "history #{i}: the run with reloads ended with {:?}, the uninterrupted run with {:?}", tag(&ra), tag(&rb));
        st.eval(1);
        n += 1;
    }
    st.label_n("history:states pushed through a codec", hs.reserialisations);
    st.label_n("history:outcomes compared", hs.client_finishes + hs.server_finishes + hs.registrations);
    st.nontrivial_bulk(hash_of(&(m.name, c)), n);
    st.label_n("plans", plans.len() as u64);
    st.label(if c.mode == 1 { "mode:all-1024-plans" } else { "mode:uniform+single+mixed" });
    st.sample(|| json!({"suite": m.name, "pw": c.pw.describe(), "ksf": format!("{:?}", c.ksf), "plans": plans.len(),
        "example_plans": plans.iter().rev().take(3).collect::<Vec<_>>(), "artefacts_compared_per_plan": base.len()}));
    Ok(())
}

pub const BUDGET: Budget = Budget {
    quick: (12, 8, 4),
    thorough: (10, 5, 3),
    shrink: 6,
};

pub fn run(cfg: &RunCfg) -> (Outcome, EvidenceExtra) {
    let mut suites = crate::suites::suites20();
    suites.extend(crate::suites::real_ksf_suites().into_iter().filter(|s| s.meta().ksf == KsfKind::RealIdentity));
    let out = run_property(cfg, "C13", suites, BUDGET, |s| strategy(cfg, s), check);
    let exhaustive = cfg.tier == Tier::Thorough;
    let ev = EvidenceExtra {
        rule: "case = generated input (password, credential id, identities, context, KSF, tapes) x a set of reload plans; a plan assigns none/native/bincode/JSON to each of the five persistence points (server setup before every server operation, password file, client registration state, client login state, server login state). quick: the 4 uniform, 15 single-point and 32 generated mixed plans; thorough: all 4^5 = 1024 plans per input. Oracle (differential): the run with reloads, on the same tapes, yields byte-identical messages, states, export key, session keys and results (23 artefacts incl. a fake-record response) to the uninterrupted run, and native(reload(x)) = native(x). Second part: 8 generated adversarial histories per case (interpreter of `history.rs`: interleaved conversations of three users with deviations, altered and cross-delivered messages) in which most conversations push a kept state (setup, record, pending client or server state) through native / bincode / JSON after one of their steps, run twice on the same tapes - with and without the reloads - and compared outcome by outcome (every message, state, key and refusal). evaluation = one plan run or one history pair; non-trivial = plans with at least one reload, distinct per (suite, case)".into(),
        assumptions: vec!["bincode images are decoded with trailing bytes rejected".into()],
        exhaustive: Some(exhaustive),
        extra: [("exhaustive_part".to_string(), json!("thorough tier: all 1024 plans for every generated input"))].into_iter().collect(),
    };
    (out, ev)
}

//! Property registry.

use serde_json::Value;

use crate::known::KnownFindings;
use crate::proto::Proto;
use crate::runner::*;

pub mod c01;
pub mod c02;
pub mod c03;
pub mod c04;
pub mod c05;
pub mod c06;
pub mod c07;
pub mod c08;
pub mod c09;
pub mod c10;
pub mod c11;
pub mod c12;
pub mod c13;
pub mod c14;
pub mod c15;
pub mod c16;
pub mod c17;
pub mod c18;
pub mod c19;

pub type RunFn = fn(&RunCfg) -> (Outcome, EvidenceExtra);
pub type ReplayFn = fn(&RunCfg, &'static dyn Proto, &Value) -> Result<CaseResult, Inconclusive>;

macro_rules! replay_fn {
    ($m:ident) => {{
        fn f(cfg: &RunCfg, s: &'static dyn Proto, v: &Value) -> Result<CaseResult, Inconclusive> {
            replay_case::<$m::Case, _>(cfg, s, v, |s, c, st, k: &KnownFindings| $m::check(s, c, st, k))
        }
        f as ReplayFn
    }};
}

pub fn registry() -> Vec<(&'static str, RunFn, ReplayFn)> {
    vec![
        ("C01", c01::run as RunFn, replay_fn!(c01)),
        ("C02", c02::run as RunFn, replay_fn!(c02)),
        ("C03", c03::run as RunFn, replay_fn!(c03)),
        ("C04", c04::run as RunFn, replay_fn!(c04)),
        ("C05", c05::run as RunFn, replay_fn!(c05)),
        ("C06", c06::run as RunFn, replay_fn!(c06)),
        ("C07", c07::run as RunFn, replay_fn!(c07)),
        ("C08", c08::run as RunFn, replay_fn!(c08)),
        ("C09", c09::run as RunFn, replay_fn!(c09)),
        ("C10", c10::run as RunFn, replay_fn!(c10)),
        ("C11", c11::run as RunFn, replay_fn!(c11)),
        ("C12", c12::run as RunFn, replay_fn!(c12)),
        ("C13", c13::run as RunFn, replay_fn!(c13)),
        ("C14", c14::run as RunFn, replay_fn!(c14)),
        ("C15", c15::run as RunFn, replay_fn!(c15)),
        ("C16", c16::run as RunFn, replay_fn!(c16)),
        ("C17", c17::run as RunFn, replay_fn!(c17)),
        ("C18", c18::run as RunFn, replay_fn!(c18)),
        ("C19", c19::run as RunFn, replay_fn!(c19)),
    ]
}

//! C07 — sessions are fresh and isolated under adversarial message routing.

use proptest::prelude::*;
use serde::{Deserialize, Serialize};
use serde_json::json;

use crate::gen::{self, BSpec, Tape};
use crate::known::KnownFindings;
use crate::ksf::{self, KsfSpec};
use crate::proto::*;
use crate::runner::*;
use crate::tape::TapeRng;
use crate::{ensure, ensure_eq};

#[derive(Clone, Debug, Serialize, Deserialize, Hash)]
pub struct Case {
    pub pw_a: BSpec,
    pub pw_b: BSpec,
    pub pw_x: BSpec,
    /// common prefix of the three credential identifiers (they differ only in their tail)
    pub cred_base: BSpec,
    pub ctx: Option<BSpec>,
    pub explicit_server_id: bool,
    /// every user has an explicit client identity (alice / bob / carol) instead of the default
    #[serde(default)]
    pub explicit_client_id: bool,
    /// all start calls draw from ONE rng (in the generated order) instead of one tape each
    pub share_rng: bool,
    /// seed of the generated call order
    pub order: u64,
    pub tape: Tape,
    /// adversarially routed histories for the interpreter in `crate::history` (8-byte op records):
    /// altered messages, mismatching context / identities / password at finish, states pushed
    /// through a codec between steps
    #[serde(default)]
    pub histories: Vec<Vec<[u8; 8]>>,
}

fn conv_spec(reser_w: u32) -> impl Strategy<Value = crate::history::ConvSpec> {
    (
        0u8..3,
        prop_oneof![3 => Just(0u8), 1 => 0u8..3],
        // 1 of 3 conversations is entirely honest, the others deviate at one step
        prop_oneof![1 => Just(0u8), 2 => 1u8..=4],
        0u8..6,
        any::<u8>(),
        any::<u8>(),
        prop_oneof![2 => Just(0u8), reser_w => 1u8..=3],
        0u8..4,
        0u8..3,
    )
        .prop_map(|(user, ctx, dev_step, dev_field, dev_val, m1, reser_step, reser_kind, codec)| crate::history::ConvSpec {
            user,
            ctx,
            dev_step,
            dev_field,
            dev_val: dev_val & 0x7f,
            m1,
            reser_step,
            reser_kind,
            codec,
        })
}

/// 1..5 interleaved conversations (each with at most one deviation) followed by free deliveries
fn history() -> impl Strategy<Value = Vec<[u8; 8]>> {
    history_with(1)
}

/// `reser_w` : 2 = odds that a conversation saves and restores a kept state after one of its steps
pub fn history_with(reser_w: u32) -> impl Strategy<Value = Vec<[u8; 8]>> {
    (
        prop::collection::vec(conv_spec(reser_w), 1..6),
        prop::collection::vec(any::<u8>(), 24),
        prop::collection::vec(history_op(), 0..8),
    )
        .prop_map(|(convs, inter, tail)| {
            let mut ops = crate::history::compile(&convs, &inter);
            ops.extend(tail);
            ops
        })
}

fn history_op() -> impl Strategy<Value = [u8; 8]> {
    (
        prop_oneof![2 => Just(0u8), 2 => Just(1u8), 4 => Just(2u8), 5 => Just(3u8), 4 => Just(4u8), 1 => Just(5u8)],
        0u8..8,
        0u8..8,
        0u8..4,
        // context: mostly the same one, so that the other parameters decide
        prop_oneof![3 => Just(0u8), 1 => 0u8..3],
        // identities (e / 8): mostly the default
        prop_oneof![3 => 0u8..8, 1 => 0u8..32],
        // 3 of 4 deliveries are unaltered
        prop_oneof![3 => Just(0u8), 1 => 128u8..=255],
        any::<u8>(),
    )
        .prop_map(|(code, a, b, c, d, e, m0, m1)| [code, a, b, c, d, e, m0, m1])
}

pub fn strategy(_s: &'static dyn Proto) -> BoxedStrategy<Case> {
    (
        gen::bytes_small(),
        gen::bytes_small(),
        gen::bytes_small(),
        prop_oneof![
            2 => Just(BSpec::Lit(b"cred-".to_vec())),
            2 => gen::bytes_small(),
            2 => (prop::sample::select(vec![40usize, 64, 100, 128, 200, 300, 1000]), any::<u64>()).prop_map(|(len, seed)| BSpec::Filled { len, seed }),
        ],
        gen::opt_ctx(gen::bytes_small()),
        any::<bool>(),
        any::<bool>(),
        any::<bool>(),
        any::<u64>(),
        gen::tape_plain(),
        prop::collection::vec(history(), 6),
    )
        .prop_map(|(pw_a, pw_b, pw_x, cred_base, ctx, explicit_server_id, explicit_client_id, share_rng, order, tape, histories)| Case {
            pw_a,
            pw_b,
            pw_x,
            cred_base,
            ctx,
            explicit_server_id,
            explicit_client_id,
            share_rng,
            order,
            tape,
            histories,
        })
        .boxed()
}

fn shuffle<T>(v: &mut [T], seed: u64) {
    let mut x = seed | 1;
    for i in (1..v.len()).rev() {
        x ^= x << 13;
        x ^= x >> 7;
        x ^= x << 17;
        let j = (x % (i as u64 + 1)) as usize;
        v.swap(i, j);
    }
}

const REC_NAMES: [&str; 5] = ["A", "B", "C(shares A's password)", "A'(re-registration)", "none"];

pub fn check(s: &'static dyn Proto, c: &Case, st: &mut Stats, _k: &KnownFindings) -> CaseResult {
    ksf::set_default_spec(KsfSpec::Identity);
    let m = s.meta();
    // three pairwise different passwords
    let pw_a = c.pw_a.bytes();
    let mut pw_b = c.pw_b.bytes();
    if pw_b == pw_a {
        pw_b.push(b'b');
    }
    let mut pw_x = c.pw_x.bytes();
    while pw_x == pw_a || pw_x == pw_b {
        pw_x.push(b'x');
    }
    let base = c.cred_base.bytes();
    let mk = |tail: &[u8]| {
        let mut v = base.clone();
        v.extend_from_slice(tail);
        v
    };
    let creds: [Vec<u8>; 3] = [mk(b"A"), mk(b"B"), mk(b"C")];
    let ctx = c.ctx.as_ref().map(|b| b.bytes());
    let sid = if c.explicit_server_id { Some(b"the-server".to_vec()) } else { None };
    // explicit client identities: one name per user (A and its re-registration: alice, B: bob,
    // C: carol; an absent record is served under "nobody"); sessions 0, 1, 3 belong to alice, 2 to bob
    let names: [&[u8]; 5] = [b"alice", b"bob", b"carol", b"alice", b"nobody"];
    let sess_name: [&[u8]; 4] = [b"alice", b"alice", b"bob", b"alice"];
    let ids_for = |name: &'static [u8]| Ids {
        client: if c.explicit_client_id { Some(name) } else { None },
        server: sid.as_deref(),
    };
    let e = |what: &str, x: PErr| Fail::new(format!("honest step failed ({what}): {x:?}"));
    let t = |i: u64| c.tape.sub(i);
    let mut shared: TapeRng = t(999).rng();
    let setup = s.setup_new(&mut t(0).rng());

    // ---- registrations: (password, credential id)
    let reg_specs: [(&Vec<u8>, usize); 4] = [(&pw_a, 0), (&pw_b, 1), (&pw_a, 2), (&pw_a, 0)];
    let mut records: Vec<Option<Obj>> = Vec::new();
    for (i, (pw, ci)) in reg_specs.iter().enumerate() {
        let mut own1 = t(10 + 2 * i as u64).rng();
        let mut own2 = t(11 + 2 * i as u64).rng();
        let (req, cst) = s
            .client_reg_start(if c.share_rng { &mut shared } else { &mut own1 }, pw)
            .map_err(|x| e("client reg start", x))?;
        let resp = s.server_reg_start(&setup, &req, &creds[*ci]).map_err(|x| e("server reg start", x))?;
        let fin = s
            .client_reg_finish(cst, if c.share_rng { &mut shared } else { &mut own2 }, pw, &resp, ids_for(names[i]), None)
            .map_err(|x| e("client reg finish", x))?;
        records.push(Some(s.server_reg_finish(&fin.upload)));
    }
    records.push(None);
    let rec_pw: [Option<&Vec<u8>>; 5] = [Some(&pw_a), Some(&pw_b), Some(&pw_a), Some(&pw_a), None];
    let rec_cred: [Option<usize>; 5] = [Some(0), Some(1), Some(2), Some(0), None];

    // ---- client sessions, started in a generated order
    let sess_pw: [&Vec<u8>; 4] = [&pw_a, &pw_a, &pw_b, &pw_x];
    let mut order: Vec<usize> = (0..4).collect();
    shuffle(&mut order, c.order);
    let mut reqs: Vec<Option<(Obj, Obj)>> = (0..4).map(|_| None).collect();
    for &i in &order {
        let mut own = t(30 + i as u64).rng();
        let r = s
            .client_login_start(if c.share_rng { &mut shared } else { &mut own }, sess_pw[i])
            .map_err(|x| e("client login start", x))?;
        reqs[i] = Some(r);
    }
    let reqs: Vec<(Obj, Obj)> = reqs.into_iter().map(|r| r.unwrap()).collect();

    // ---- every (request, record, credential id) server session, in a generated order
    let mut keys: Vec<(usize, usize, usize)> = Vec::new();
    for j in 0..4 {
        for r in 0..5 {
            for ci in 0..3 {
                keys.push((j, r, ci));
            }
        }
    }
    shuffle(&mut keys, c.order.rotate_left(17) ^ 0xABCD);
    struct Sess {
        key: (usize, usize, usize),
        resp: Obj,
        state: Obj,
    }
    let mut sessions: Vec<Sess> = Vec::new();
    for (n, &(j, r, ci)) in keys.iter().enumerate() {
        let mut own = t(100 + n as u64).rng();
        let (resp, state) = s
            .server_login_start(
                if c.share_rng { &mut shared } else { &mut own },
                &setup,
                records[r].as_ref(),
                &reqs[j].0,
                &creds[ci],
                ctx.as_deref(),
                ids_for(names[r]),
            )
            .map_err(|x| e("server login start", x))?;
        sessions.push(Sess { key: (j, r, ci), resp, state });
    }

    // ---- deliver every response to every client session
    struct Done {
        client: usize,
        server_session: usize,
        fin: Obj,
        key: Vec<u8>,
    }
    let mut done: Vec<Done> = Vec::new();
    let mut nontrivial = 0u64;
    for (k, se) in sessions.iter().enumerate() {
        let (j, r, ci) = se.key;
        for i in 0..4 {
            let name_ok = !c.explicit_client_id || names[r] == sess_name[i];
            let model = j == i && rec_pw[r].map(|p| p == sess_pw[i]).unwrap_or(false) && rec_cred[r] == Some(ci) && name_ok;
            let res = s.client_login_finish(s.clone_obj(&reqs[i].1), sess_pw[i], &se.resp, ctx.as_deref(), ids_for(sess_name[i]), None);
            st.eval(1);
            let in_order_honest = j == i && rec_cred[r] == Some(ci);
            if !in_order_honest {
                nontrivial += 1;
            }
            match (model, res) {
                (true, Ok(lf)) => done.push(Done {
                    client: i,
                    server_session: k,
                    fin: lf.fin,
                    key: lf.session_key,
                }),
                (true, Err(x)) => {
                    return Err(Fail::new(format!(
                        "matched conversation rejected by the client: session {i}, response for (request {j}, record {}, cred {ci}): {x:?}",
                        REC_NAMES[r]
                    )))
                }
                (false, Ok(_)) => {
                    return Err(Fail::new(format!(
                        "client session {i} accepted a response outside its matched conversation: made for (request {j}, record {}, credential id #{ci})",
                        REC_NAMES[r]
                    )))
                }
                (false, Err(_)) => {}
            }
        }
    }
    st.label_n("response->client deliveries", (sessions.len() * 4) as u64);
    // ---- deliver every finalization to every pending server session
    for d in &done {
        for (k, se) in sessions.iter().enumerate() {
            let res = s.server_login_finish(s.clone_obj(&se.state), &d.fin);
            st.eval(1);
            if k != d.server_session {
                nontrivial += 1;
            }
            match (k == d.server_session, res) {
                (true, Ok(key)) => ensure_eq!(key, d.key, "keys differ within a completed session"),
                (true, Err(x)) => return Err(Fail::new(format!("server rejected the finalization of its own matched conversation: {x:?}"))),
                (false, Ok(_)) => {
                    return Err(Fail::new(format!(
                        "server session {:?} completed on a finalization produced for server session {:?} (client {})",
                        se.key, sessions[d.server_session].key, d.client
                    )))
                }
                // which error is C03's subject; here only "never lead to acceptance" is stated
                (false, Err(_)) => {}
            }
        }
    }
    st.label_n("finalization->server deliveries", (done.len() * sessions.len()) as u64);
    // ---- distinct completed sessions have distinct session keys
    for a in 0..done.len() {
        for b in 0..a {
            ensure!(
                done[a].key != done[b].key,
                "two distinct completed sessions share a session key: client {} / server session {:?} and client {} / server session {:?}",
                done[a].client,
                sessions[done[a].server_session].key,
                done[b].client,
                sessions[done[b].server_session].key
            );
        }
    }
    // the model expects 3 acceptable records for sessions 0,1 (A, A', C) and 1 for session 2; with
    // explicit client identities carol's record no longer matches alice's sessions (2 + 2 + 1)
    let expected = if c.explicit_client_id { 5 } else { 7 };
    ensure_eq!(done.len(), expected, "number of completed conversations (model)");
    // ---- second part: generated histories with altered messages and re-serialised states
    let mut hs = crate::history::HistoryStats::default();
    for (i, h) in c.histories.iter().enumerate() {
        let mut data = vec![0u8, (c.order as u8).wrapping_add(i as u8)];
        for o in h {
            data.extend_from_slice(o);
        }
        match crate::history::run_history(s, &data, &mut hs) {
            Ok(()) => {}
            Err(e) if e.starts_with("C07 ") => return Err(Fail::new(format!("history #{i}: {e}"))),
            // the interpreter also notices failures that are other properties' subject (an honest step or
            // a matched conversation refused: C01; a state that does not survive a codec: C13; export
            // key: C16); the history cannot continue, but that is not a C07 verdict
            Err(e) => st.label(format!("history stopped early by a failure outside C07 ({})", &e[..3])),
        }
    }
    st.eval(hs.client_finishes + hs.server_finishes);
    nontrivial += hs.client_finishes + hs.server_finishes - hs.client_accepts - hs.server_accepts;
    st.label_n("history:client finishes", hs.client_finishes);
    st.label_n("history:client accepts (matched)", hs.client_accepts);
    st.label_n("history:server finishes", hs.server_finishes);
    st.label_n("history:server accepts (matched)", hs.server_accepts);
    st.label_n("history:altered deliveries", hs.mutated_deliveries);
    st.label_n("history:states pushed through a codec", hs.reserialisations);
    st.nontrivial_bulk(hash_of(&(m.name, c)), nontrivial);
    st.label(if c.share_rng { "rng:shared" } else { "rng:per-call" });
    st.sample(|| json!({"suite": m.name, "share_rng": c.share_rng, "client_start_order": order,
        "server_sessions": sessions.len(), "completed": done.iter().map(|d| format!("client {} <-> {:?}", d.client, sessions[d.server_session].key)).collect::<Vec<_>>()}));
    Ok(())
}

pub const BUDGET: Budget = Budget {
    quick: (8, 5, 3),
    thorough: (400, 200, 100),
    shrink: 6,
};

pub fn run(cfg: &RunCfg) -> (Outcome, EvidenceExtra) {
    let out = run_property(cfg, "C07", crate::suites::suites20(), BUDGET, strategy, check);
    let ev = EvidenceExtra {
        rule: "case = history on one server: registrations {A(pwA,credA), B(pwB,credB), C(pwA,credC), A'(re-registration of A), none} whose three credential identifiers share a generated prefix of 0..1000 bytes and differ in the last byte, client sessions {A, A again, B, A with a wrong password} started in a generated order, every (request, record, credential id) server session (4*5*3 = 60) started in a generated order; identities are either the defaults or one explicit client name per user (generated); all start calls draw either from one shared RNG or from a tape each (generated). Enumerated exhaustively per history: every response delivered to every client session (240 finishes on clones) and every resulting finalization delivered to every pending server session. Oracle = explicit model: client i accepts the response (request j, record, cred) iff j = i, the record exists, its password is the session's and cred is the record's; server session k completes only on the finalization produced from its own response; keys agree within a completed session; all completed sessions have pairwise distinct session keys; both directions asserted (exactly 7 conversations complete). Second part, 6 generated histories per case, each compiled from 1..5 interleaved intended conversations of three registered users with at most one deviation each (another operand at one step: password, record or none, credential id, context, identities, addressed session or message; or an altered message) and optional save/restore of a kept state, followed by 0..7 free operations (interpreter shared with the libFuzzer target `history`): register / client start / server start / client finish / server finish / push any kept state through native, bincode or JSON, where every delivery may be altered (one byte, one field taken from another message of its type, length change) and the finishing client may use another password, context or identities; oracle = acceptance by provenance (a client completes exactly on the bytes some server session produced for its own request under a record with its password, that record's credential id and agreeing context/identities; a server session exactly on the finalization made from its own response; equal keys within, distinct keys across sessions; export key of the registration). evaluation = one delivery; non-trivial = deliveries that are not the in-order honest ones; distinct per (suite, case)".into(),
        assumptions: vec!["routing is exhaustive for the bounded population; histories (orders, RNG sharing, inputs) are sampled".into()],
        exhaustive: Some(true),
        extra: [("exhaustive_part".to_string(), json!("all routings of the bounded population, per generated history"))].into_iter().collect(),
    };
    (out, ev)
}

//! C03 — the server completes login only on the matching client finalization.

use std::collections::HashSet;

use proptest::prelude::*;
use serde::{Deserialize, Serialize};
use serde_json::json;

use crate::flow;
use crate::gen::{self, BSpec, Tape};
use crate::known::KnownFindings;
use crate::ksf::{self, KsfSpec};
use crate::proto::*;
use crate::runner::*;
use crate::{ensure, ensure_eq};

#[derive(Clone, Debug, Serialize, Deserialize, Hash)]
pub struct Case {
    pub pw: BSpec,
    pub pw_other: BSpec,
    pub cred: BSpec,
    pub cred_other: BSpec,
    pub ctx: Option<BSpec>,
    pub explicit_ids: bool,
    pub tape: Tape,
    /// how many of the Nh offsets get all 255 substitutions (0 = all)
    pub offsets_limit: u16,
}

pub fn strategy(_s: &'static dyn Proto) -> BoxedStrategy<Case> {
    (
        gen::bytes_small(),
        gen::bytes_small(),
        gen::cred_id(),
        gen::cred_id(),
        gen::opt_ctx(gen::bytes_small()),
        any::<bool>(),
        gen::tape_plain(),
    )
        .prop_map(|(pw, pw_other, cred, cred_other, ctx, explicit_ids, tape)| Case {
            pw,
            pw_other,
            cred,
            cred_other,
            ctx,
            explicit_ids,
            tape,
            offsets_limit: 0,
        })
        .boxed()
}

struct Pending {
    kind: String,
    state: Obj,
    /// the genuine finalization and the client's session key, if one exists
    genuine: Option<(Vec<u8>, Vec<u8>)>,
}

pub fn check(s: &'static dyn Proto, c: &Case, st: &mut Stats, _k: &KnownFindings) -> CaseResult {
    ksf::set_default_spec(KsfSpec::Identity);
    let m = s.meta();
    let pw = c.pw.bytes();
    let mut pw_other = c.pw_other.bytes();
    if pw_other == pw {
        pw_other.push(b'x');
    }
    let cred = c.cred.bytes();
    let mut cred_other = c.cred_other.bytes();
    if cred_other == cred {
        cred_other.push(b'y');
    }
    let ctx = flow::opt(&c.ctx);
    let (idu, ids_) = if c.explicit_ids {
        (Some(b"alice".to_vec()), Some(b"server.example".to_vec()))
    } else {
        (None, None)
    };
    let ids = Ids {
        client: idu.as_deref(),
        server: ids_.as_deref(),
    };
    let t = |i: u64| c.tape.sub(i);
    let setup = s.setup_new(&mut t(0).rng());
    let err = |what: &str, e: PErr| Fail::new(format!("honest step failed ({what}): {e:?}"));
    let reg_a = flow::register(s, &setup, &pw, &cred, ids, None, &t(1), &t(2)).map_err(|e| err("register A", e))?;
    let reg_b =
        flow::register(s, &setup, &pw_other, &cred_other, ids, None, &t(3), &t(4)).map_err(|e| err("register B", e))?;

    // ---- sessions
    let honest = |rec: Option<&Obj>, pw_login: &[u8], cred_id: &[u8], i: u64| {
        flow::login(
            s,
            &setup,
            rec,
            pw_login,
            cred_id,
            ctx.as_deref(),
            ids,
            ctx.as_deref(),
            ids,
            None,
            &t(10 + 2 * i),
            &t(11 + 2 * i),
        )
    };
    // kind 1: real record, accepting client
    let l1 = honest(Some(&reg_a.record), &pw, &cred, 0).map_err(|e| err("login 1", e))?;
    let c1 = l1.client.as_ref().map_err(|e| err("client finish 1", e.clone()))?;
    let f1 = s.ser(Codec::Native, &c1.fin);
    // positive control
    let sk1 = s
        .server_login_finish(s.clone_obj(&l1.server_state), &c1.fin)
        .map_err(|e| Fail::new(format!("genuine finalization rejected: {e:?}")))?;
    ensure_eq!(sk1, c1.session_key, "server session key != client session key");
    // kind 2: fake record
    let l2 = honest(None, &pw, &cred, 1).map_err(|e| err("login 2 (fake)", e))?;
    ensure!(l2.client.is_err(), "client accepted a fake-record response");
    // kind 3: real record, wrong password
    let l3 = honest(Some(&reg_a.record), &pw_other, &cred, 2).map_err(|e| err("login 3", e))?;
    ensure!(l3.client.is_err(), "client accepted with a wrong password");
    // auxiliary sessions whose finalizations are candidates
    let l4 = honest(Some(&reg_a.record), &pw, &cred, 3).map_err(|e| err("login 4", e))?; // same user, 2nd session
    let f4 = s.ser(Codec::Native, &l4.client.as_ref().map_err(|e| err("client finish 4", e.clone()))?.fin);
    let l5 = honest(Some(&reg_b.record), &pw_other, &cred_other, 4).map_err(|e| err("login 5", e))?; // other user / password
    let f5 = s.ser(Codec::Native, &l5.client.as_ref().map_err(|e| err("client finish 5", e.clone()))?.fin);
    // same request answered twice: the other answer's finalization
    let (req6, cst6) = s.client_login_start(&mut t(30).rng(), &pw).map_err(|e| err("start 6", e))?;
    let (resp6a, sst6a) = s
        .server_login_start(&mut t(31).rng(), &setup, Some(&reg_a.record), &req6, &cred, ctx.as_deref(), ids)
        .map_err(|e| err("server start 6a", e))?;
    let (resp6b, _sst6b) = s
        .server_login_start(&mut t(32).rng(), &setup, Some(&reg_a.record), &req6, &cred, ctx.as_deref(), ids)
        .map_err(|e| err("server start 6b", e))?;
    let fa = s
        .client_login_finish(s.clone_obj(&cst6), &pw, &resp6a, ctx.as_deref(), ids, None)
        .map_err(|e| err("client finish 6a", e))?;
    let fb = s
        .client_login_finish(s.clone_obj(&cst6), &pw, &resp6b, ctx.as_deref(), ids, None)
        .map_err(|e| err("client finish 6b", e))?;
    let f6a = s.ser(Codec::Native, &fa.fin);
    let f6b = s.ser(Codec::Native, &fb.fin);

    let pendings = vec![
        Pending {
            kind: "real-accepting".into(),
            state: s.clone_obj(&l1.server_state),
            genuine: Some((f1.clone(), c1.session_key.clone())),
        },
        Pending {
            kind: "fake-record".into(),
            state: s.clone_obj(&l2.server_state),
            genuine: None,
        },
        Pending {
            kind: "real-wrong-password".into(),
            state: s.clone_obj(&l3.server_state),
            genuine: None,
        },
        Pending {
            kind: "answered-twice(a)".into(),
            state: sst6a,
            genuine: Some((f6a.clone(), fa.session_key.clone())),
        },
    ];

    // a pending state that was stored between start and finish (native bytes, bincode, JSON) is a
    // pending state too; those get the named candidate classes and the bit flips (not the 255*Nh
    // substitutions).  A state that does not survive the codec at all is C13's subject, not C03's.
    let mut pendings = pendings;
    let n_direct = pendings.len();
    for i in 0..n_direct {
        for cd in CODECS {
            let img = s.ser(cd, &pendings[i].state);
            if let Ok(o) = s.de(cd, Ty::ServerLogin, &img) {
                let p = Pending {
                    kind: format!("{} restored through {cd:?}", pendings[i].kind),
                    state: o,
                    genuine: pendings[i].genuine.clone(),
                };
                pendings.push(p);
            }
        }
    }

    // ---- candidates
    let nh = m.nh;
    ensure_eq!(f1.len(), nh, "finalization length");
    let mut cands: Vec<(String, Vec<u8>)> = Vec::new();
    for (name, base) in [("F1", &f1), ("F6a", &f6a)] {
        for off in 0..nh {
            for bit in 0..8 {
                let mut v = base.clone();
                v[off] ^= 1 << bit;
                cands.push((format!("{name}:bitflip@{off}.{bit}"), v));
            }
        }
        let lim = if c.offsets_limit == 0 { nh } else { (c.offsets_limit as usize).min(nh) };
        for off in 0..lim {
            for val in 0..=255u8 {
                if val != base[off] {
                    let mut v = base.clone();
                    v[off] = val;
                    cands.push((format!("{name}:subst@{off}={val:02x}"), v));
                }
            }
        }
    }
    for (name, base) in [("F1", &f1), ("F6a", &f6a)] {
        for (mname, v) in crate::fieldmap::multi_byte_mutants(base, 0, nh, true) {
            cands.push((format!("{name}:{mname}"), v));
        }
        // the same bit flipped in any two bytes
        for i in 0..nh {
            for j in i + 2..nh {
                let mut v = base.clone();
                v[i] ^= 1 << (j % 8);
                v[j] ^= 1 << (j % 8);
                cands.push((format!("{name}:pairflip@{i},{j}"), v));
            }
        }
    }
    cands.push(("same-user-other-session".into(), f4.clone()));
    cands.push(("other-user-other-password".into(), f5.clone()));
    cands.push(("same-request-other-answer".into(), f6b.clone()));
    cands.push(("F1".into(), f1.clone()));
    cands.push(("F6a".into(), f6a.clone()));
    cands.push(("all-zero".into(), vec![0u8; nh]));
    cands.push(("all-ff".into(), vec![0xffu8; nh]));
    // reflection: the server's own MAC (and every other Nh-byte window an eavesdropper sees at a
    // field boundary of a response) sent back as the finalization
    for (rname, resp) in [("S1", &l1.resp), ("S2-fake", &l2.resp), ("S3-wrongpw", &l3.resp), ("S6a", &resp6a), ("S6b", &resp6b)] {
        let w = s.ser(Codec::Native, resp);
        for f in crate::fieldmap::fields(&m, Ty::CredResp) {
            if f.len >= nh {
                cands.push((format!("reflect:{rname}.{}[..Nh]", f.name), w[f.off..f.off + nh].to_vec()));
                cands.push((format!("reflect:{rname}.{}[-Nh..]", f.name), w[f.off + f.len - nh..f.off + f.len].to_vec()));
            }
        }
    }
    // finalizations anybody can compute without any secret: MAC / hash of constant strings
    {
        use crate::refmodel as rm;
        let alg = rm::oprf_hash(m.oprf);
        let consts: [Vec<u8>; 3] = [vec![0u8; nh], vec![0xffu8; nh], Vec::new()];
        for (i, k) in consts.iter().enumerate() {
            for (j, msg) in consts.iter().enumerate() {
                cands.push((format!("public:HMAC(const{i},const{j})"), rm::hmac(alg, k, &[msg])));
            }
            cands.push((format!("public:H(const{i})"), rm::hash(alg, &[k])));
        }
    }
    {
        use rand::RngCore;
        let mut r = t(99).rng();
        for i in 0..64 {
            let mut v = vec![0u8; nh];
            r.fill_bytes(&mut v);
            cands.push((format!("random#{i}"), v));
        }
    }
    // dedupe so the distinct count is honest
    let mut seen: HashSet<Vec<u8>> = HashSet::new();
    cands.retain(|(_, v)| seen.insert(v.clone()));

    let case_hash = hash_of(&(m.name, c));
    let mut n_nontrivial = 0u64;
    for (pi, p) in pendings.iter().enumerate() {
        let mut n_this = 0u64;
        for (name, cand) in &cands {
            if pi >= n_direct && (name.contains(":subst@") || name.contains(":pairflip@")) {
                continue;
            }
            n_this += 1;
            let is_genuine = p.genuine.as_ref().map(|(f, _)| f == cand).unwrap_or(false);
            let fin = match s.de(Codec::Native, Ty::CredFin, cand) {
                Ok(f) => f,
                Err(e) => return Err(Fail::new(format!("a {nh}-byte string does not decode as finalization: {e:?}"))),
            };
            let r = s.server_login_finish(s.clone_obj(&p.state), &fin);
            st.eval(1);
            if is_genuine {
                let (_, key) = p.genuine.as_ref().unwrap();
                match r {
                    Ok(k) if pi >= n_direct && &k != key => st.label("restored state releases another key for the genuine finalization (C13's subject)"),
                    Ok(k) => ensure_eq!(&k, key, "state {}: genuine finalization gave a different key", p.kind),
                    // whether a stored-and-restored state still works is C13's subject
                    Err(_) if pi >= n_direct => st.label("restored state refuses the genuine finalization (C13's subject)"),
                    Err(e) => return Err(Fail::new(format!("state {}: genuine finalization rejected: {e:?}", p.kind))),
                }
            } else {
                n_nontrivial += 1;
                match r {
                    Err(PErr::InvalidLogin) => {}
                    Err(e) => {
                        return Err(Fail::new(format!(
                            "state {}: candidate {name} rejected with {e:?}, expected InvalidLogin",
                            p.kind
                        )))
                    }
                    Ok(_) => {
                        return Err(Fail::new(format!(
                            "state {}: server completed on non-matching finalization {name} ({})",
                            p.kind,
                            hex::encode(cand)
                        )))
                    }
                }
            }
        }
        st.label_n(format!("state:{}", p.kind), n_this);
    }
    st.nontrivial_bulk(case_hash, n_nontrivial);
    st.sample(|| {
        json!({"suite": m.name, "pw": c.pw.describe(), "cred": c.cred.describe(),
               "states": pendings.iter().map(|p| p.kind.clone()).collect::<Vec<_>>(),
               "candidates_per_state": cands.len(),
               "example_candidates": cands.iter().take(2).map(|(n, v)| json!({"name": n, "hex": hex::encode(v)})).collect::<Vec<_>>()})
    });
    Ok(())
}

pub const BUDGET: Budget = Budget {
    quick: (12, 12, 6),
    thorough: (300, 300, 150),
    shrink: 12,
};

pub fn run(cfg: &RunCfg) -> (Outcome, EvidenceExtra) {
    let out = run_property(cfg, "C03", crate::suites::suites20(), BUDGET, strategy, check);
    let ev = EvidenceExtra {
        rule: "per generated case: 4 pending server states (real record + accepting client; fake record; real record + wrong-password client; one of two answers to the same request), each also after being stored and restored through native bytes, bincode and JSON (these 12 with the named classes and bit flips only), x candidates {all 8*Nh single-bit flips and all 255*Nh single-byte substitutions of two genuine finalizations, multi-byte alterations of them whose differences cancel under XOR or preserve the byte sum or the multiset of bytes (the same bit flipped in every pair of bytes, adjacent transpositions, +1/-1 pairs, 0f/f0/ff triples, rotation, reversal), finalizations of another session of the same user / of another user+password / of the other answer to the same request, all-zero, all-0xFF, publicly computable constants (HMAC and hash of all-zero / all-0xFF / empty strings), 64 random strings}, each delivered to a clone of the state. evaluation = one ServerLogin::finish call. non-trivial = candidate != the state's genuine finalization; candidates deduplicated per case, cases distinct by hash of (suite, case)".into(),
        assumptions: vec!["HMAC forgeries that were not generated are out of reach".into()],
        exhaustive: Some(false),
        extra: [("exhaustive_part".to_string(), json!("single-bit and single-byte substitutions of the genuine finalization are enumerated exhaustively per case"))].into_iter().collect(),
    };
    (out, ev)
}

//! C15 — the key-stretching function is applied once and bound into every secret.

use proptest::prelude::*;
use serde::{Deserialize, Serialize};
use serde_json::json;

use crate::fieldmap::slice;
use crate::gen::{self, BSpec, Tape};
use crate::known::KnownFindings;
use crate::ksf::{self, KsfSpec, DEFAULT_TAG};
use crate::proto::*;
use crate::refmodel::{self as rm, Suite};
use crate::runner::*;
use crate::{ensure, ensure_eq};

#[derive(Clone, Debug, Serialize, Deserialize, Hash)]
pub struct Case {
    pub pw: BSpec,
    pub cred: BSpec,
    pub ctx: Option<BSpec>,
    /// the suite's default instance for this case (DynKsf suites only)
    pub default_spec: KsfSpec,
    pub tape: Tape,
    /// pass clones of the parameter structs to the API (exercises their Clone impls)
    #[serde(default)]
    pub clone_params: bool,
}

pub fn strategy(s: &'static dyn Proto) -> BoxedStrategy<Case> {
    let def = match s.meta().ksf {
        KsfKind::Dyn => prop_oneof![
            3 => Just(KsfSpec::Identity),
            2 => Just(KsfSpec::H(0)),
            1 => Just(KsfSpec::Argon2 { m_kib: 8, t: 1, p: 1 }),
        ]
        .boxed(),
        KsfKind::RealIdentity => Just(KsfSpec::Identity).boxed(),
        KsfKind::RealArgon2 => Just(KsfSpec::Argon2Default).boxed(),
        KsfKind::Zst => Just(KsfSpec::H(ksf::ZST_FAMILY)).boxed(),
    };
    (gen::bytes_param(), gen::cred_id(), gen::opt_ctx(gen::bytes_small()), def, gen::tape(), any::<bool>())
        .prop_map(|(pw, cred, ctx, default_spec, tape, clone_params)| Case {
            pw,
            cred,
            ctx,
            default_spec,
            tape,
            clone_params,
        })
        .boxed()
}

/// the instance table; `None` = parameter absent
fn table(kind: KsfKind, default_spec: &KsfSpec) -> Vec<(String, Option<KsfSpec>)> {
    match kind {
        KsfKind::Dyn => vec![
            ("absent".into(), None),
            ("explicit-default".into(), Some(default_spec.clone())),
            ("H1".into(), Some(KsfSpec::H(1))),
            ("H2".into(), Some(KsfSpec::H(2))),
            ("argon2-default".into(), Some(KsfSpec::Argon2Default)),
            ("argon2-m16-t2".into(), Some(KsfSpec::Argon2 { m_kib: 16, t: 2, p: 1 })),
            // same costs, another algorithm / a secret: different functions
            ("argon2i-m16-t2".into(), Some(KsfSpec::Argon2Ex { alg: 1, v10: false, m_kib: 16, t: 2, p: 1, secret: 0 })),
            ("argon2id-m16-t2-pepper".into(), Some(KsfSpec::Argon2Ex { alg: 2, v10: false, m_kib: 16, t: 2, p: 1, secret: 1 })),
        ],
        KsfKind::RealIdentity => vec![("absent".into(), None), ("explicit-default".into(), Some(KsfSpec::Identity))],
        KsfKind::Zst => vec![("absent".into(), None), ("explicit-default".into(), Some(KsfSpec::H(ksf::ZST_FAMILY)))],
        KsfKind::RealArgon2 => vec![
            ("absent".into(), None),
            ("explicit-default".into(), Some(KsfSpec::Argon2Default)),
            ("argon2-m16-t1".into(), Some(KsfSpec::Argon2 { m_kib: 16, t: 1, p: 1 })),
            ("argon2-m24-t2".into(), Some(KsfSpec::Argon2 { m_kib: 24, t: 2, p: 1 })),
            // equal costs, but another algorithm, version or secret: different functions
            ("argon2i-m16-t1".into(), Some(KsfSpec::Argon2Ex { alg: 1, v10: false, m_kib: 16, t: 1, p: 1, secret: 0 })),
            ("argon2d-m16-t1".into(), Some(KsfSpec::Argon2Ex { alg: 0, v10: false, m_kib: 16, t: 1, p: 1, secret: 0 })),
            ("argon2id-v10-m16-t1".into(), Some(KsfSpec::Argon2Ex { alg: 2, v10: true, m_kib: 16, t: 1, p: 1, secret: 0 })),
            ("argon2id-m16-t1-pepper1".into(), Some(KsfSpec::Argon2Ex { alg: 2, v10: false, m_kib: 16, t: 1, p: 1, secret: 1 })),
            ("argon2id-m16-t1-pepper2".into(), Some(KsfSpec::Argon2Ex { alg: 2, v10: false, m_kib: 16, t: 1, p: 1, secret: 2 })),
        ],
    }
}

struct Reg {
    record: Obj,
    upload: Vec<u8>,
    export_key: Vec<u8>,
}

pub fn check(s: &'static dyn Proto, c: &Case, st: &mut Stats, _k: &KnownFindings) -> CaseResult {
    set_clone_params(c.clone_params);
    let r = check_inner(s, c, st);
    set_clone_params(false);
    ksf::set_default_spec(KsfSpec::Identity);
    r
}

fn check_inner(s: &'static dyn Proto, c: &Case, st: &mut Stats) -> CaseResult {
    let m = s.meta();
    let suite = Suite::of(&m);
    let journalled = matches!(m.ksf, KsfKind::Dyn | KsfKind::Zst);
    let tagged = m.ksf == KsfKind::Dyn;
    ksf::set_default_spec(c.default_spec.clone());
    let pw = c.pw.bytes();
    let cred = c.cred.bytes();
    let ctx = c.ctx.as_ref().map(|b| b.bytes());
    let ids = Ids::default();
    let t = |i: u64| c.tape.sub(i);
    let e = |what: &str, x: PErr| Fail::new(format!("step failed ({what}): {x:?}"));
    let setup = s.setup_new(&mut t(0).rng());
    let sb = s.ser(Codec::Native, &setup);
    let oprf_seed = slice(&m, Ty::ServerSetup, "oprf_seed", &sb).to_vec();
    let tab = table(m.ksf, &c.default_spec);
    let eff = |k: &Option<KsfSpec>| k.clone().unwrap_or_else(|| c.default_spec.clone());

    // expected KSF input = OPRF output, computed by the reference from the witnessed blind
    let oprf_output = |blind: &[u8], blinded: &[u8]| -> Result<Vec<u8>, Fail> {
        let key = suite.oprf_key(&oprf_seed, &cred).ok_or_else(|| Fail::new("reference oprf_key"))?;
        let ev = rm::oprf_evaluate(m.oprf, &key, blinded).ok_or_else(|| Fail::new("reference evaluate"))?;
        rm::oprf_finalize(m.oprf, &pw, blind, &ev).ok_or_else(|| Fail::new("reference finalize"))
    };

    // ---- registrations, one per table entry, all on the same tapes
    let mut regs: Vec<Reg> = Vec::new();
    for (name, k) in &tab {
        ksf::journal_reset();
        let (req, cst) = s.client_reg_start(&mut t(1).rng(), &pw).map_err(|x| e("client reg start", x))?;
        let cst_b = s.ser(Codec::Native, &cst);
        let resp = s.server_reg_start(&setup, &req, &cred).map_err(|x| e("server reg start", x))?;
        ensure!(!journalled || ksf::journal_len() == 0, "KSF evaluated before the client finish step (registration, {name})");
        let fin = s
            .client_reg_finish(cst, &mut t(2).rng(), &pw, &resp, ids, k.as_ref())
            .map_err(|x| e(&format!("client reg finish with ksf {name}"), x))?;
        if journalled {
            let j = ksf::journal_take();
            ensure_eq!(j.len(), 1, "number of KSF evaluations in ClientRegistration::finish ({name})");
            let want = oprf_output(&cst_b[..m.nok], &cst_b[m.nok..])?;
            ensure_eq!(j[0].input, want, "KSF input at registration != OPRF output ({name})");
            match k {
                _ if !tagged => ensure_eq!(&j[0].spec, &eff(k), "KSF evaluated with unexpected parameters ({name})"),
                Some(spec) => {
                    ensure!(j[0].tag != DEFAULT_TAG, "a KSF instance was passed ({name}) but the default instance was evaluated");
                    ensure_eq!(&j[0].spec, spec, "KSF evaluated on another instance than the one passed ({name})");
                }
                None => {
                    ensure_eq!(j[0].tag, DEFAULT_TAG, "no KSF passed but a non-default instance was evaluated");
                    ensure_eq!(&j[0].spec, &c.default_spec, "default KSF instance has unexpected parameters");
                }
            }
        }
        let record = s.server_reg_finish(&fin.upload);
        ensure!(!journalled || ksf::journal_len() == 0, "KSF evaluated in ServerRegistration::finish");
        regs.push(Reg {
            record,
            upload: s.ser(Codec::Native, &fin.upload),
            export_key: fin.export_key,
        });
        st.eval(1);
    }
    // explicit default == absent (byte-identical on equal tapes); different functions differ everywhere
    for i in 0..tab.len() {
        for j in (i + 1)..tab.len() {
            let same = eff(&tab[i].1).same_function(&eff(&tab[j].1));
            let (a, b) = (&regs[i], &regs[j]);
            if same {
                ensure_eq!(a.upload, b.upload, "upload differs between '{}' and '{}' although they denote the same KSF", tab[i].0, tab[j].0);
                ensure_eq!(a.export_key, b.export_key, "export key differs between equivalent KSF spellings");
            } else {
                for fld in ["masking_key", "client_s_pk", "envelope_mac"] {
                    ensure!(
                        slice(&m, Ty::RegUpload, fld, &a.upload) != slice(&m, Ty::RegUpload, fld, &b.upload),
                        "{fld} unchanged when switching the KSF from '{}' to '{}'",
                        tab[i].0,
                        tab[j].0
                    );
                }
                ensure!(a.export_key != b.export_key, "export key unchanged when switching the KSF from '{}' to '{}'", tab[i].0, tab[j].0);
            }
            st.eval(1);
        }
    }

    // ---- the full (registration KSF, login KSF) table
    for (i, (rname, rk)) in tab.iter().enumerate() {
        for (lname, lk) in &tab {
            ksf::journal_reset();
            let (req, cst) = s.client_login_start(&mut t(3).rng(), &pw).map_err(|x| e("client login start", x))?;
            let cst_b = s.ser(Codec::Native, &cst);
            let (resp, sst) = s
                .server_login_start(&mut t(4).rng(), &setup, Some(&regs[i].record), &req, &cred, ctx.as_deref(), ids)
                .map_err(|x| e("server login start", x))?;
            ensure!(!journalled || ksf::journal_len() == 0, "KSF evaluated before the client finish step (login)");
            let r = s.client_login_finish(cst, &pw, &resp, ctx.as_deref(), ids, lk.as_ref());
            if journalled {
                let j = ksf::journal_take();
                ensure_eq!(j.len(), 1, "number of KSF evaluations in ClientLogin::finish (reg {rname}, login {lname})");
                let want = oprf_output(slice(&m, Ty::ClientLogin, "blind", &cst_b), slice(&m, Ty::ClientLogin, "blinded_element", &cst_b))?;
                ensure_eq!(j[0].input, want, "KSF input at login != OPRF output");
                match lk {
                    _ if !tagged => {}
                    Some(spec) => {
                        ensure!(j[0].tag != DEFAULT_TAG, "a KSF instance was passed at login ({lname}) but the default instance was evaluated");
                        ensure_eq!(&j[0].spec, spec, "KSF evaluated on another instance than the one passed at login");
                    }
                    None => ensure_eq!(j[0].tag, DEFAULT_TAG, "no KSF passed at login but a non-default instance was evaluated"),
                }
            }
            let same = eff(rk).same_function(&eff(lk));
            match (same, r) {
                (true, Ok(lf)) => {
                    ensure_eq!(lf.export_key, regs[i].export_key, "export key (reg {rname}, login {lname})");
                    let sk = s.server_login_finish(sst, &lf.fin).map_err(|x| e("server finish", x))?;
                    ensure_eq!(sk, lf.session_key, "session keys");
                    ensure!(!journalled || ksf::journal_len() == 0, "KSF evaluated in ServerLogin::finish");
                }
                (true, Err(x)) => return Err(Fail::new(format!("login failed although registration ({rname}) and login ({lname}) use the same KSF: {x:?}"))),
                // "registering and logging in under different stretching parameters fails" - any error
                (false, Err(_)) => {}
                (false, Ok(_)) => return Err(Fail::new(format!("login succeeded although registration used KSF {rname} and login used {lname}"))),
            }
            st.eval(1);
            st.label(if same { "pair:same-ksf" } else { "pair:different-ksf" });
        }
    }

    // ---- fault injection: the n-th evaluation fails
    if tagged {
        for n in 1..=3u32 {
            ksf::journal_reset();
            let spec = KsfSpec::FailAt(n, Box::new(KsfSpec::H(1)));
            let (req, cst) = s.client_reg_start(&mut t(1).rng(), &pw).map_err(|x| e("client reg start", x))?;
            let resp = s.server_reg_start(&setup, &req, &cred).map_err(|x| e("server reg start", x))?;
            let fin = s.client_reg_finish(cst, &mut t(2).rng(), &pw, &resp, ids, Some(&spec));
            if n == 1 {
                match fin {
                    // "A failure of the stretching function is returned as an error" - any error
                    Err(_) => {}
                    Ok(_) => return Err(Fail::new("registration produced an upload although the KSF failed")),
                }
                st.eval(1);
                st.label("fault:registration");
                continue;
            }
            let fin = fin.map_err(|x| e("client reg finish (fault plan, call 1 must pass)", x))?;
            let rec = s.server_reg_finish(&fin.upload);
            let (lreq, lst) = s.client_login_start(&mut t(3).rng(), &pw).map_err(|x| e("client login start", x))?;
            let (lresp, _sst) = s
                .server_login_start(&mut t(4).rng(), &setup, Some(&rec), &lreq, &cred, ctx.as_deref(), ids)
                .map_err(|x| e("server login start", x))?;
            let r = s.client_login_finish(lst, &pw, &lresp, ctx.as_deref(), ids, Some(&spec));
            if n == 2 {
                match r {
                    Err(_) => {}
                    Ok(_) => return Err(Fail::new("login produced outputs although the KSF failed")),
                }
                st.label("fault:login");
            } else {
                ensure!(r.is_ok(), "no-fault control failed: {:?}", r.err());
                st.label("fault:none(control)");
            }
            ensure_eq!(ksf::journal_len(), 2, "KSF evaluations over registration + login");
            st.eval(1);
        }
    }
    ksf::set_default_spec(KsfSpec::Identity);
    st.nontrivial(&(m.name, c));
    st.label(format!("default:{:?}", c.default_spec));
    st.sample(|| json!({"suite": m.name, "pw": c.pw.describe(), "default_instance": format!("{:?}", c.default_spec),
        "table": tab.iter().map(|(n, _)| n.clone()).collect::<Vec<_>>(), "pairs": tab.len() * tab.len()}));
    Ok(())
}

pub const BUDGET: Budget = Budget {
    quick: (8, 5, 3),
    thorough: (180, 72, 30),
    shrink: 8,
};

pub fn run(cfg: &RunCfg) -> (Outcome, EvidenceExtra) {
    let mut suites = crate::suites::suites20();
    suites.extend(crate::suites::real_ksf_suites());
    let out = run_property(cfg, "C15", suites, BUDGET, strategy, check);
    let ev = EvidenceExtra {
        rule: "case = (password, credential id, context, the suite's default KSF instance, tapes); inside a case the full table {absent, explicit default, H1, H2, Argon2 default, Argon2id m=16 t=2, Argon2i with the same costs, Argon2id with the same costs and a secret} x itself (registration KSF, login KSF) is enumerated (real Identity/Argon2 suites: their own instance tables; the real-Argon2 table holds 9 instances incl. equal-cost Argon2i/Argon2d/version 0x10/two secrets). Oracle from the journalling Ksf implementation: exactly one hash call per client finish and none elsewhere, on the passed instance when one is passed and on the default otherwise, with input = OPRF output computed by the reference; same function => login succeeds with the registration's export key, different => exactly InvalidLoginError; equivalent spellings give byte-identical uploads on equal tapes, different functions change masking key, client key, envelope tag and export key; a KSF that fails on call n makes that finish step return LibraryError(KsfError) and nothing else (n = 1 registration, 2 login, 3 control). evaluation = one table cell or relation; all cases non-trivial (non-Identity KSFs and faults in every case); distinct by hash".into(),
        assumptions: vec!["the 6x6 table is exhaustive per input".into()],
        exhaustive: Some(false),
        extra: Default::default(),
    };
    (out, ev)
}

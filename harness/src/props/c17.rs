//! C17 — deterministic in the supplied randomness, and every random value is fresh.

use proptest::prelude::*;
use serde::{Deserialize, Serialize};
use serde_json::json;

use crate::fieldmap::slice;
use crate::gen::{self, BSpec, Tape};
use crate::known::KnownFindings;
use crate::ksf::{self, KsfSpec};
use crate::proto::*;
use crate::refmodel::{self as rm, Suite};
use crate::runner::*;
use crate::tape::{TapeRng, TapeSpec};
use crate::{ensure, ensure_eq};

#[derive(Clone, Debug, Serialize, Deserialize, Hash)]
pub struct Case {
    pub pw: BSpec,
    pub cred: BSpec,
    pub ctx: Option<BSpec>,
    pub explicit_ids: bool,
    pub tape_a: Tape,
    pub tape_b: Tape,
    /// where the spliced tape leaves the common prefix (mapped into 0..=bytes consumed)
    pub split: u16,
    /// snap the split to a draw boundary
    pub snap: bool,
}

pub fn strategy(_s: &'static dyn Proto) -> BoxedStrategy<Case> {
    (
        gen::bytes_small(),
        gen::cred_id(),
        gen::opt_ctx(gen::bytes_small()),
        any::<bool>(),
        gen::tape_plain(),
        gen::tape_plain(),
        any::<u16>(),
        any::<bool>(),
    )
        .prop_map(|(pw, cred, ctx, explicit_ids, tape_a, tape_b, split, snap)| Case {
            pw,
            cred,
            ctx,
            explicit_ids,
            tape_a,
            tape_b,
            split,
            snap,
        })
        .boxed()
}

/// how a named output value relates to the RNG
#[derive(Clone, Copy, Debug, PartialEq)]
enum W {
    /// must equal a recorded draw verbatim
    Verbatim,
    /// key pair: public key = DeriveDiffieHellmanKeyPair(draw).pk
    KeyPairPk,
    /// private key = DeriveDiffieHellmanKeyPair(draw).sk
    KeyPairSk,
    /// random but the RFC does not fix how it is sampled (OPRF blind): metamorphic only
    Opaque,
    /// the fake-record masking key, visible only through the pad
    FakeMaskingKey,
    /// not random (deterministic function of the other values)
    Derived,
}

struct Out {
    name: &'static str,
    bytes: Vec<u8>,
    w: W,
}

struct OpRun {
    outs: Vec<Out>,
    rng: TapeRng,
    /// memo of `witness` per output name
    wcache: std::cell::RefCell<std::collections::HashMap<&'static str, Option<(usize, usize)>>>,
    /// everything the operation returned, concatenated (for whole-output equality)
    all: Vec<u8>,
}

/// the six randomised operations, each as a closure over a tape
struct World<'a> {
    s: &'static dyn Proto,
    m: Meta,
    pw: Vec<u8>,
    cred: Vec<u8>,
    ctx: Option<Vec<u8>>,
    idu: Option<Vec<u8>>,
    ids: Option<Vec<u8>>,
    setup: &'a Obj,
    reg_resp: &'a Obj,
    reg_state: &'a Obj,
    record: &'a Obj,
    login_req: &'a Obj,
}

const OPS: [&str; 6] = [
    "ServerSetup::new",
    "ClientRegistration::start",
    "ClientRegistration::finish",
    "ClientLogin::start",
    "ServerLogin::start(record)",
    "ServerLogin::start(no record)",
];

impl World<'_> {
    fn ids(&self) -> Ids<'_> {
        Ids {
            client: self.idu.as_deref(),
            server: self.ids.as_deref(),
        }
    }
    fn run(&self, op: usize, spec: &TapeSpec) -> Result<OpRun, Fail> {
        self.run_faulty(op, spec, None)
    }
    /// like `run`, with the caller's RNG failing at its `fail_at`-th call
    fn run_faulty(&self, op: usize, spec: &TapeSpec, fail_at: Option<usize>) -> Result<OpRun, Fail> {
        let s = self.s;
        let m = &self.m;
        let mut rng = spec.rng();
        rng.fail_at_call = fail_at;
        let e = |x: PErr| Fail::new(format!("{} failed: {x:?}", OPS[op]));
        let mut outs: Vec<Out> = Vec::new();
        let mut all: Vec<u8> = Vec::new();
        let mut push = |name: &'static str, bytes: &[u8], w: W| outs.push(Out { name, bytes: bytes.to_vec(), w });
        match op {
            0 => {
                let setup = s.setup_new(&mut rng);
                let b = s.ser(Codec::Native, &setup);
                push("oprf_seed", slice(m, Ty::ServerSetup, "oprf_seed", &b), W::Verbatim);
                push("server_static_sk", slice(m, Ty::ServerSetup, "server_s_sk", &b), W::KeyPairSk);
                push("server_static_pk", &s.setup_public_key(&setup), W::KeyPairPk);
                push("fake_sk", slice(m, Ty::ServerSetup, "fake_sk", &b), W::KeyPairSk);
                all.extend_from_slice(&b);
            }
            1 => {
                let (req, st) = s.client_reg_start(&mut rng, &self.pw).map_err(e)?;
                let rb = s.ser(Codec::Native, &req);
                let sb = s.ser(Codec::Native, &st);
                push("blind(registration)", &sb[..m.nok], W::Opaque);
                push("registration_request", &rb, W::Derived);
                all.extend_from_slice(&rb);
                all.extend_from_slice(&sb);
            }
            2 => {
                let fin = s
                    .client_reg_finish(s.clone_obj(self.reg_state), &mut rng, &self.pw, self.reg_resp, self.ids(), None)
                    .map_err(e)?;
                let ub = s.ser(Codec::Native, &fin.upload);
                push("envelope_nonce", slice(m, Ty::RegUpload, "envelope_nonce", &ub), W::Verbatim);
                push("upload", &ub, W::Derived);
                all.extend_from_slice(&ub);
                all.extend_from_slice(&fin.export_key);
                all.extend_from_slice(&fin.server_s_pk);
            }
            3 => {
                let (req, st) = s.client_login_start(&mut rng, &self.pw).map_err(e)?;
                let rb = s.ser(Codec::Native, &req);
                let sb = s.ser(Codec::Native, &st);
                push("blind(login)", slice(m, Ty::ClientLogin, "blind", &sb), W::Opaque);
                push("client_nonce", slice(m, Ty::CredReq, "client_nonce", &rb), W::Verbatim);
                push("client_e_pk", slice(m, Ty::CredReq, "client_e_pk", &rb), W::KeyPairPk);
                push("client_e_sk", slice(m, Ty::ClientLogin, "client_e_sk", &sb), W::KeyPairSk);
                all.extend_from_slice(&rb);
                all.extend_from_slice(&sb);
            }
            4 | 5 => {
                let rec = if op == 4 { Some(self.record) } else { None };
                let (resp, st) = s
                    .server_login_start(&mut rng, self.setup, rec, self.login_req, &self.cred, self.ctx.as_deref(), self.ids())
                    .map_err(e)?;
                let rb = s.ser(Codec::Native, &resp);
                let sb = s.ser(Codec::Native, &st);
                push("masking_nonce", slice(m, Ty::CredResp, "masking_nonce", &rb), W::Verbatim);
                push("server_nonce", slice(m, Ty::CredResp, "server_nonce", &rb), W::Verbatim);
                push("server_e_pk", slice(m, Ty::CredResp, "server_e_pk", &rb), W::KeyPairPk);
                if op == 5 {
                    push("masked_response(fake)", slice(m, Ty::CredResp, "masked_response", &rb), W::FakeMaskingKey);
                }
                push("server_mac", slice(m, Ty::CredResp, "server_mac", &rb), W::Derived);
                push("pending_session_key", slice(m, Ty::ServerLogin, "session_key", &sb), W::Derived);
                all.extend_from_slice(&rb);
                all.extend_from_slice(&sb);
            }
            _ => unreachable!(),
        }
        Ok(OpRun { outs, rng, all, wcache: Default::default() })
    }

    /// locate the stretch of the tape (offset, len) that witnesses `o`, if the value is taken
    /// from the tape in a recognisable way (verbatim bytes, or a key pair derived from them)
    fn witness(&self, o: &Out, run: &OpRun) -> Option<(usize, usize)> {
        if let Some(r) = run.wcache.borrow().get(o.name) {
            return *r;
        }
        let r = self.witness_uncached(o, run);
        run.wcache.borrow_mut().insert(o.name, r);
        r
    }
    fn witness_uncached(&self, o: &Out, run: &OpRun) -> Option<(usize, usize)> {
        let m = &self.m;
        let suite = Suite::of(m);
        match o.w {
            W::Verbatim => run.rng.find(&o.bytes).map(|off| (off, o.bytes.len())),
            W::KeyPairPk | W::KeyPairSk => {
                for (off, seed) in run.rng.windows(m.nsk) {
                    if let Some((sk, pk)) = rm::derive_dh_key_pair(m.ke, m.oprf, &seed) {
                        if (o.w == W::KeyPairPk && pk == o.bytes) || (o.w == W::KeyPairSk && sk == o.bytes) {
                            return Some((off, m.nsk));
                        }
                    }
                }
                None
            }
            W::FakeMaskingKey => {
                let mn = run.outs.iter().find(|x| x.name == "masking_nonce").map(|x| x.bytes.clone()).unwrap_or_default();
                let server_pk = self.s.setup_public_key(self.setup);
                run.rng
                    .windows(m.nh)
                    .into_iter()
                    .find(|(_, d)| suite.masked_response(d, &mn, &server_pk, &vec![0u8; 32 + m.nh]) == o.bytes)
                    .map(|(off, _)| (off, m.nh))
            }
            W::Opaque | W::Derived => None,
        }
    }
}

pub fn check(s: &'static dyn Proto, c: &Case, st: &mut Stats, _k: &KnownFindings) -> CaseResult {
    ksf::set_default_spec(KsfSpec::Identity);
    let m = s.meta();
    let pw = c.pw.bytes();
    let cred = c.cred.bytes();
    let (idu, ids_) = if c.explicit_ids { (Some(b"cl".to_vec()), Some(b"sv".to_vec())) } else { (None, None) };
    // fixed context objects, built from tape_a's sub-tapes 100+
    let ta = |i: u64| c.tape_a.sub(i);
    let e = |what: &str, x: PErr| Fail::new(format!("step failed ({what}): {x:?}"));
    let setup = s.setup_new(&mut ta(100).rng());
    let (req, reg_state) = s.client_reg_start(&mut ta(101).rng(), &pw).map_err(|x| e("reg start", x))?;
    let reg_resp = s.server_reg_start(&setup, &req, &cred).map_err(|x| e("server reg start", x))?;
    let ids = Ids { client: idu.as_deref(), server: ids_.as_deref() };
    let fin = s
        .client_reg_finish(s.clone_obj(&reg_state), &mut ta(102).rng(), &pw, &reg_resp, ids, None)
        .map_err(|x| e("reg finish", x))?;
    let record = s.server_reg_finish(&fin.upload);
    let (login_req, _) = s.client_login_start(&mut ta(103).rng(), &pw).map_err(|x| e("login start", x))?;
    let w = World {
        s,
        m,
        pw: pw.clone(),
        cred: cred.clone(),
        ctx: c.ctx.as_ref().map(|b| b.bytes()),
        idu: idu.clone(),
        ids: ids_.clone(),
        setup: &setup,
        reg_resp: &reg_resp,
        reg_state: &reg_state,
        record: &record,
        login_req: &login_req,
    };

    let mut all_values_a: Vec<(String, Vec<u8>)> = Vec::new();
    for op in 0..OPS.len() {
        let spec_a = c.tape_a.sub(op as u64);
        let spec_b = c.tape_b.sub(op as u64);
        // ---- determinism: same tape, twice here and once in a fresh thread
        let a1 = w.run(op, &spec_a)?;
        let a2 = w.run(op, &spec_a)?;
        ensure_eq!(a1.all, a2.all, "{}: two runs on the same tape give different outputs (hidden entropy or state)", OPS[op]);
        ensure_eq!(a1.rng.all_bytes(), a2.rng.all_bytes(), "{}: two runs on the same tape consume the tape differently", OPS[op]);
        let a3 = std::thread::scope(|sc| sc.spawn(|| w.run(op, &spec_a).map(|r| r.all)).join())
            .map_err(|_| Fail::new(format!("{}: panicked in a fresh thread", OPS[op])))??;
        ensure_eq!(a1.all, a3, "{}: a fresh thread gives different outputs on the same tape", OPS[op]);
        st.eval(3);
        ensure!(a1.rng.ncalls() > 0, "{}: did not use the caller's RNG at all", OPS[op]);

        // ---- freshness across independent tapes, witnesses
        let b1 = w.run(op, &spec_b)?;
        for (oa, ob) in a1.outs.iter().zip(b1.outs.iter()) {
            assert!(oa.name == ob.name, "HARNESS-BUG: output order");
            ensure!(
                oa.bytes != ob.bytes,
                "{}: '{}' is the same on two independent tapes ({})",
                OPS[op],
                oa.name,
                hex::encode(&oa.bytes)
            );
            if !matches!(oa.w, W::Opaque | W::Derived) {
                // how the value is taken from the tape is C09's business (RFC conformance); here the
                // witness only tells which part of the tape the value depends on
                if w.witness(oa, &a1).is_some() {
                    st.label("witnessed-by-tape-bytes");
                } else {
                    st.label("not-a-verbatim-function-of-the-tape(skipped)");
                }
            }
            st.eval(1);
        }
        if op == 5 {
            // the fake masking key differs across attempts: distinct witness draws
            let fa = a1.outs.iter().find(|o| o.w == W::FakeMaskingKey).unwrap();
            let fb = b1.outs.iter().find(|o| o.w == W::FakeMaskingKey).unwrap();
            if let (Some((oa, la)), Some((ob, lb))) = (w.witness(fa, &a1), w.witness(fb, &b1)) {
                let ka = &a1.rng.all_bytes()[oa..oa + la];
                let kb = &b1.rng.all_bytes()[ob..ob + lb];
                ensure!(ka != kb, "fake-record masking key repeats across attempts");
            }
        }
        for o in &a1.outs {
            if !matches!(o.w, W::Derived | W::FakeMaskingKey) {
                all_values_a.push((format!("{}:{}", OPS[op], o.name), o.bytes.clone()));
            }
        }

        // ---- tapes that differ only after byte n
        let consumed = a1.rng.consumed();
        let mut n = gen::pick(c.split, consumed + 1);
        if c.snap {
            // snap down to a draw boundary
            let mut off = 0;
            let mut best = 0;
            for d in &a1.rng.draws {
                if off <= n {
                    best = off;
                }
                off += d.bytes.len();
            }
            if off <= n {
                best = off;
            }
            n = best;
        }
        let spliced = TapeSpec {
            seed: spec_a.seed,
            splice: Some((n, spec_b.seed)),
            prefix_calls: 0,
            prefix_fill: 0,
        };
        let s1 = w.run(op, &spliced)?;
        st.eval(1);
        // judge by the bytes that were actually handed out: a spliced tape whose consumed bytes
        // happen to coincide (e.g. a split one byte before the end: 1 chance in 256) is the same tape
        let same_bytes = s1.rng.all_bytes() == a1.rng.all_bytes();
        if n >= consumed || same_bytes {
            ensure_eq!(s1.all, a1.all, "{}: outputs differ although the {consumed} consumed bytes are identical (split at {n})", OPS[op]);
            st.label("split:after-all-draws");
        } else {
            // no claim about the outputs as a whole here: an implementation may draw bytes it does
            // not use (rejected samples, larger blocks); the claims are per located value, below
            for (oa, os) in a1.outs.iter().zip(s1.outs.iter()) {
                if oa.w == W::FakeMaskingKey {
                    // the masked response is a function of two draws (masking key and masking nonce)
                    continue;
                }
                if let Some((off, len)) = w.witness(oa, &a1) {
                    if off + len <= n {
                        ensure_eq!(oa.bytes, os.bytes, "{}: '{}' changed although its draw [{off},{}) lies in the common prefix {n}", OPS[op], oa.name, off + len);
                        st.label("split:value-in-prefix-equal");
                    } else if off >= n {
                        let sb = s1.rng.all_bytes();
                        let ab = a1.rng.all_bytes();
                        let drawn_differs = sb.len() < off + len || sb[off..off + len] != ab[off..off + len];
                        if drawn_differs {
                            ensure!(oa.bytes != os.bytes, "{}: '{}' unchanged although its draw [{off},{}) lies after the split {n}", OPS[op], oa.name, off + len);
                            st.label("split:value-after-split-differs");
                        }
                    } else {
                        st.label("split:straddles-draw");
                    }
                    st.eval(1);
                }
            }
            if n == 0 {
                st.label("split:at-0");
            }
        }

        // ---- a failing RNG: the n-th call of the caller's generator fails (try_fill_bytes
        // returns an error, fill_bytes panics, like OsRng).  The operation may propagate that
        // failure (panic raised by the RNG itself) or return an error; if it returns Ok, every
        // random value in its output must still come from a successful draw.
        let ncalls = a1.rng.ncalls();
        for k in 1..=ncalls {
            let r = guarded(|| w.run_faulty(op, &spec_a, Some(k)));
            st.eval(1);
            match r {
                Err(p) if p.contains(crate::tape::RNG_FAILURE_MSG) => st.label("rng-fault:propagated"),
                // e.g. rand's `Rng::fill` / an `expect` on `try_fill_bytes`: the failure is propagated in
                // another wording; the property says nothing about how a failing generator is reported
                Err(_) => st.label("rng-fault:propagated(other panic text)"),
                Ok(Err(_)) => st.label("rng-fault:error-returned"),
                Ok(Ok(run)) => {
                    for (o, o_ref) in run.outs.iter().zip(a1.outs.iter()) {
                        // only values that ARE taken from the tape in the fault-free run are judged
                        if !matches!(o.w, W::Opaque | W::Derived) && w.witness(o_ref, &a1).is_some() && w.witness(o, &run).is_none() {
                            return Err(Fail::new(format!(
                                "{}: the RNG failed at call {k} of {ncalls}, the operation still returned Ok, and '{}' = {} does not come from any successful draw",
                                OPS[op],
                                o.name,
                                hex::encode(&o.bytes)
                            )));
                        }
                    }
                    st.label("rng-fault:ok-with-witnessed-values");
                }
            }
        }
    }
    // ---- the key-generation entry point of the group API (what an application calls to make the
    // server key for ServerSetup::new_with_key): deterministic in the tape, and 32 independent
    // tapes never give the same key twice (an 8-bit entropy collapse repeats with probability
    // 0.86 among 32 draws; a sound sampler with probability < 2^-240)
    {
        let mut keys: Vec<Vec<u8>> = Vec::new();
        for i in 0..32u64 {
            let ts = if i % 2 == 0 { c.tape_a.sub(300 + i) } else { c.tape_b.sub(300 + i) };
            let k = s.kg_random_sk(&mut ts.rng());
            if i < 2 {
                ensure_eq!(k, s.kg_random_sk(&mut ts.rng()), "KeGroup::random_sk is not a function of the tape");
            }
            keys.push(k);
        }
        for x in 0..keys.len() {
            for y in 0..x {
                ensure!(
                    keys[x] != keys[y],
                    "KeGroup::random_sk returned the same private key ({}) on two independent tapes (#{y} and #{x} of 32)",
                    hex::encode(&keys[x])
                );
            }
        }
        st.eval(496);
        st.label("random_sk:32 independent tapes pairwise distinct");
    }
    // ---- rejection samplers on a stuck-then-recovering RNG: the first k calls return all-zero
    // bytes (which every rejection sampler must refuse and retry), then the tapes continue
    // independently; what is drawn must still vary with the tape.  Only samplers that reject the
    // zero draw are in scope (ristretto255 / NIST scalar sampling: KeGroup::random_sk and the
    // OPRF blind); Curve25519's clamp turns zero bytes into a valid key and is not checked here.
    for k in 1..=2u8 {
        let za = TapeSpec { prefix_calls: k, prefix_fill: 0, ..c.tape_a.sub(200) };
        let zb = TapeSpec { prefix_calls: k, prefix_fill: 0, ..c.tape_b.sub(200) };
        if m.ke != KeKind::Curve25519 {
            let ka = s.kg_random_sk(&mut za.rng());
            let kb = s.kg_random_sk(&mut zb.rng());
            ensure!(
                ka != kb,
                "KeGroup::random_sk returns the same key ({}) on two tapes that differ only after {k} all-zero draw(s)",
                hex::encode(&ka)
            );
            st.eval(1);
        }
        // a sampler may also refuse the all-zero draw with an error instead of drawing again
        if let (Ok((ra, _)), Ok((rb, _))) = (s.client_reg_start(&mut za.rng(), &pw), s.client_reg_start(&mut zb.rng(), &pw)) {
            ensure!(
                s.ser(Codec::Native, &ra) != s.ser(Codec::Native, &rb),
                "registration request is the same on two tapes that differ only after {k} all-zero draw(s)"
            );
            st.eval(1);
        } else {
            st.label("zero-prefixed-tapes:start refused");
        }
        st.label("zero-prefixed-tapes");
    }
    // ---- no two random values coincide within a run
    for i in 0..all_values_a.len() {
        for j in 0..i {
            let (na, a) = &all_values_a[i];
            let (nb, b) = &all_values_a[j];
            // a key pair's sk/pk are different names of one draw; equal-length values only
            if a.len() == b.len() {
                ensure!(a != b, "two random values coincide within a run: {na} and {nb} = {}", hex::encode(a));
            }
            st.eval(1);
        }
    }
    st.nontrivial(&(m.name, c));
    st.sample(|| json!({"suite": m.name, "pw": c.pw.describe(), "operations": OPS, "split": c.split, "snap": c.snap,
        "random_values_tracked": all_values_a.iter().map(|(n, _)| n.clone()).collect::<Vec<_>>()}));
    Ok(())
}

pub const BUDGET: Budget = Budget {
    quick: (100, 40, 12),
    thorough: (3000, 900, 300),
    shrink: 60,
};

pub fn run(cfg: &RunCfg) -> (Outcome, EvidenceExtra) {
    let out = run_property(cfg, "C17", crate::suites::suites20(), BUDGET, strategy, check);
    let ev = EvidenceExtra {
        rule: "case = inputs plus a pair of independent tapes (a, b) and a split position; for each of the six randomised operations (ServerSetup::new, ClientRegistration::start/finish, ClientLogin::start, ServerLogin::start with and without record): (determinism) two runs on tape a and a third in a fresh thread give byte-identical outputs, states and tape consumption; (freshness) every random value (OPRF blind at registration and login, envelope nonce, masking nonce, client/server nonce, client/server ephemeral keys, OPRF seed, static and fake key pairs, the fake-record masked response) differs between tapes a and b, all of them are pairwise distinct within a run, the part of the tape an RFC-defined value is taken from is located (nonces/seed as verbatim tape bytes, key pairs = DeriveDiffieHellmanKeyPair(tape bytes), fake masking key = the bytes whose pad reproduces the masked response, which differ across attempts) - locating it is not itself required by this property; (prefix tapes) on the tape a[..n] ++ b the outputs are identical when the consumed bytes are identical; values located on the tape before n are unchanged and values located at or after n change (no claim is made about bytes an implementation draws but does not use); (key generation API) KeGroup::random_sk is a function of the tape and gives 32 pairwise distinct keys on 32 independent tapes; (stuck-then-recovering RNG) on two tapes whose first 1-2 draws are all-zero and which then continue independently, KeGroup::random_sk (ristretto255/NIST) and the registration request still differ; (failing RNG) for every call index k the operation makes, an RNG that fails at call k (try_fill_bytes error / fill_bytes panic) makes the operation propagate that failure or return an error, or, if it returns Ok, every value that is taken from the tape in the fault-free run is still taken from successfully drawn bytes. evaluation = one relation; every case uses non-identical tape pairs; distinct by hash".into(),
        assumptions: vec!["the OPRF blind is checked metamorphically only (RFC 9497 does not fix the sampling method)".into(),
            "32-byte collisions between independent tapes do not occur".into()],
        exhaustive: None,
        extra: Default::default(),
    };
    (out, ev)
}

//! C04 — the client completes login only on the server's genuine response.

use std::collections::HashSet;

use proptest::prelude::*;
use rand::RngCore;
use serde::{Deserialize, Serialize};
use serde_json::json;

use crate::fieldmap::{self, FieldKind};
use crate::flow;
use crate::gen::{self, BSpec, Tape};
use crate::known::KnownFindings;
use crate::ksf::{self, KsfSpec};
use crate::proto::*;
use crate::refmodel;
use crate::runner::*;
use crate::{ensure, ensure_eq};

#[derive(Clone, Debug, Serialize, Deserialize, Hash)]
pub struct Case {
    pub pw: BSpec,
    pub cred: BSpec,
    pub ctx: Option<BSpec>,
    pub explicit_ids: bool,
    pub tape: Tape,
    /// 0: three values per offset; 1: 8 bit flips + 8 generated values; 2: all 255 values
    pub subst_mode: u8,
}

pub fn strategy(cfg: &RunCfg, s: &'static dyn Proto) -> BoxedStrategy<Case> {
    let mode = match (cfg.tier, s.meta().cost()) {
        (Tier::Quick, _) => 0u8,
        (Tier::Thorough, Cost::Slow) => 1,
        (Tier::Thorough, _) => 2,
    };
    (
        gen::bytes_small(),
        gen::cred_id(),
        gen::opt_ctx(gen::bytes_small()),
        any::<bool>(),
        gen::tape_plain(),
    )
        .prop_map(move |(pw, cred, ctx, explicit_ids, tape)| Case {
            pw,
            cred,
            ctx,
            explicit_ids,
            tape,
            subst_mode: mode,
        })
        .boxed()
}

/// a fresh valid encoding for a field of the given kind
pub fn fresh_field(m: &Meta, kind: FieldKind, len: usize, r: &mut crate::tape::TapeRng) -> Vec<u8> {
    let rand_scalar = |g: refmodel::Grp, r: &mut crate::tape::TapeRng| -> Vec<u8> {
        // small-ish canonical non-zero scalar in the group's byte order
        let n = g.scalar_len();
        let mut v = vec![0u8; n];
        let mut w = [0u8; 16];
        r.fill_bytes(&mut w);
        w[0] |= 1;
        if g.little_endian() {
            v[..16].copy_from_slice(&w);
        } else {
            v[n - 16..].copy_from_slice(&w);
            v[n - 1] |= 1;
        }
        v
    };
    match kind {
        FieldKind::OprfElem => {
            let g = refmodel::grp_of_oprf(m.oprf);
            let sc = rand_scalar(g, r);
            g.base_mul(&sc).expect("HARNESS-BUG: fresh element")
        }
        FieldKind::KePk => match refmodel::grp_of_ke(m.ke) {
            Some(g) => {
                let sc = rand_scalar(g, r);
                g.base_mul(&sc).expect("HARNESS-BUG: fresh element")
            }
            None => {
                let mut k = [0u8; 32];
                r.fill_bytes(&mut k);
                refmodel::x25519_base(&k).expect("HARNESS-BUG: fresh x25519 key")
            }
        },
        _ => {
            let mut v = vec![0u8; len];
            r.fill_bytes(&mut v);
            v
        }
    }
}

pub fn check(s: &'static dyn Proto, c: &Case, st: &mut Stats, _k: &KnownFindings) -> CaseResult {
    ksf::set_default_spec(KsfSpec::Identity);
    let m = s.meta();
    let pw = c.pw.bytes();
    let cred = c.cred.bytes();
    let ctx = flow::opt(&c.ctx);
    let (idu, ids_) = if c.explicit_ids {
        (Some(b"client-identity".to_vec()), Some(b"server-identity".to_vec()))
    } else {
        (None, None)
    };
    let ids = Ids {
        client: idu.as_deref(),
        server: ids_.as_deref(),
    };
    let t = |i: u64| c.tape.sub(i);
    let e = |what: &str, e: PErr| Fail::new(format!("honest step failed ({what}): {e:?}"));
    let setup = s.setup_new(&mut t(0).rng());
    let setup2 = s.setup_new(&mut t(1).rng());
    let reg = flow::register(s, &setup, &pw, &cred, ids, None, &t(2), &t(3)).map_err(|x| e("register", x))?;
    let mut pw_b = pw.clone();
    pw_b.extend_from_slice(b"-other");
    let mut cred_b = cred.clone();
    cred_b.extend_from_slice(b"-b");
    let reg_b = flow::register(s, &setup, &pw_b, &cred_b, ids, None, &t(4), &t(5)).map_err(|x| e("register B", x))?;
    let reg_2 = flow::register(s, &setup2, &pw, &cred, ids, None, &t(6), &t(7)).map_err(|x| e("register@setup2", x))?;

    // the session under test
    let (req, cst) = s.client_login_start(&mut t(10).rng(), &pw).map_err(|x| e("client start", x))?;
    let start = |setup: &Obj, rec: Option<&Obj>, req: &Obj, cred: &[u8], i: u64| {
        s.server_login_start(&mut t(i).rng(), setup, rec, req, cred, ctx.as_deref(), ids)
    };
    let (r_obj, _sst) = start(&setup, Some(&reg.record), &req, &cred, 11).map_err(|x| e("server start R", x))?;
    let (r1_obj, _) = start(&setup, Some(&reg.record), &req, &cred, 12).map_err(|x| e("server start R'", x))?;
    // other sessions
    let (req2, _cst2) = s.client_login_start(&mut t(13).rng(), &pw).map_err(|x| e("client start 2", x))?;
    let (r2_obj, _) = start(&setup, Some(&reg.record), &req2, &cred, 14).map_err(|x| e("server start R2", x))?;
    let (req3, _cst3) = s.client_login_start(&mut t(15).rng(), &pw_b).map_err(|x| e("client start 3", x))?;
    let (r3_obj, _) = start(&setup, Some(&reg_b.record), &req3, &cred_b, 16).map_err(|x| e("server start R3", x))?;
    let (r4_obj, _) = start(&setup2, Some(&reg_2.record), &req, &cred, 17).map_err(|x| e("server start R4", x))?;
    let (r5_obj, _) = start(&setup, None, &req, &cred, 18).map_err(|x| e("server start R5", x))?;
    // this request answered with another user's record / another credential id
    let (r6_obj, _) = start(&setup, Some(&reg_b.record), &req, &cred, 19).map_err(|x| e("server start R6", x))?;
    let (r7_obj, _) = start(&setup, Some(&reg.record), &req, &cred_b, 20).map_err(|x| e("server start R7", x))?;

    let r = s.ser(Codec::Native, &r_obj);
    let r1 = s.ser(Codec::Native, &r1_obj);
    let finish = |resp: &Obj| s.client_login_finish(s.clone_obj(&cst), &pw, resp, ctx.as_deref(), ids, None);
    // positive controls: both genuine answers to this request are accepted
    let ok = finish(&r_obj).map_err(|x| Fail::new(format!("genuine response R rejected: {x:?}")))?;
    ensure_eq!(ok.export_key, reg.export_key, "export key");
    finish(&r1_obj).map_err(|x| Fail::new(format!("genuine second response R' rejected: {x:?}")))?;
    ensure!(r != r1, "two answers to the same request are identical");

    let fields = fieldmap::fields(&m, Ty::CredResp);
    ensure_eq!(r.len(), m.len_of(Ty::CredResp), "response length");
    let mut cands: Vec<(String, Vec<u8>)> = Vec::new();
    // (1) single-byte substitutions at every offset
    let mut vr = t(50).rng();
    for off in 0..r.len() {
        let fname = fieldmap::field_at(&m, Ty::CredResp, off).map(|f| f.name).unwrap_or("?");
        let mut vals: Vec<u8> = Vec::new();
        match c.subst_mode {
            0 => {
                vals.push(r[off] ^ 0x01);
                vals.push(r[off] ^ 0x80);
                vals.push((vr.next_u32() & 0xff) as u8);
            }
            1 => {
                for b in 0..8 {
                    vals.push(r[off] ^ (1 << b));
                }
                for _ in 0..8 {
                    vals.push((vr.next_u32() & 0xff) as u8);
                }
            }
            _ => {
                for v in 0..=255u8 {
                    vals.push(v);
                }
            }
        }
        vals.sort_unstable();
        vals.dedup();
        for v in vals {
            if v != r[off] {
                let mut x = r.clone();
                x[off] = v;
                cands.push((format!("subst:{fname}@{off}={v:02x}"), x));
            }
        }
    }
    // (2) field-wise mixes of R with other responses
    let others: Vec<(&str, Vec<u8>)> = vec![
        ("R'(same request, second answer)", r1.clone()),
        ("R2(same user, other session)", s.ser(Codec::Native, &r2_obj)),
        ("R3(other user)", s.ser(Codec::Native, &r3_obj)),
        ("R4(other server setup)", s.ser(Codec::Native, &r4_obj)),
        ("R5(fake record)", s.ser(Codec::Native, &r5_obj)),
        ("R6(other user's record for this request)", s.ser(Codec::Native, &r6_obj)),
        ("R7(other credential id for this request)", s.ser(Codec::Native, &r7_obj)),
    ];
    let nf = fields.len();
    for (oname, o) in &others {
        for mask in 1u32..(1 << nf) {
            // bit i set: field i taken from the other response
            let full = mask == (1 << nf) - 1;
            if full && (oname.starts_with("R'") || oname.starts_with("R4")) {
                // R' is the second genuine answer; R4 is the complete genuine answer of
                // another server with which the same password is registered
                continue;
            }
            let mut x = r.clone();
            for (i, f) in fields.iter().enumerate() {
                if mask & (1 << i) != 0 {
                    x[f.off..f.off + f.len].copy_from_slice(&o[f.off..f.off + f.len]);
                }
            }
            cands.push((format!("mix:{oname}:mask={mask:06b}"), x));
        }
    }
    // (3) each field re-randomised with a fresh valid value
    let mut fr = t(51).rng();
    for f in &fields {
        for k in 0..2 {
            let v = fresh_field(&m, f.kind, f.len, &mut fr);
            cands.push((format!("fresh:{}#{k}", f.name), fieldmap::splice(&r, f, &v)));
        }
    }
    // (4) several bytes of one field altered at once (cancelling / sum-preserving / permuting)
    for f in &fields {
        for (name, x) in fieldmap::multi_byte_mutants(&r, f.off, f.len, c.subst_mode != 0) {
            cands.push((format!("multi:{}:{name}", f.name), x));
        }
    }
    // (5) reflection: the client's own request values (of this and of another session) played
    // back in the corresponding response fields (anchor: reflected-value check + transcript MAC)
    for (rname, rq) in [("own", &req), ("other-session", &req2)] {
        let q = s.ser(Codec::Native, rq);
        ensure_eq!(q.len(), m.len_of(Ty::CredReq), "request length");
        let pairs = [
            ("evaluation_element", "blinded_element"),
            ("server_nonce", "client_nonce"),
            ("server_e_pk", "client_e_pk"),
        ];
        for mask in 1u32..(1 << pairs.len()) {
            let mut x = r.clone();
            for (i, (to, from)) in pairs.iter().enumerate() {
                if mask & (1 << i) != 0 {
                    let f = fieldmap::field(&m, Ty::CredResp, to);
                    x = fieldmap::splice(&x, &f, fieldmap::slice(&m, Ty::CredReq, from, &q));
                }
            }
            cands.push((format!("reflect:{rname}:mask={mask:03b}"), x));
        }
    }
    // dedupe; drop anything byte-equal to a genuine answer
    let mut seen: HashSet<Vec<u8>> = HashSet::new();
    seen.insert(r.clone());
    seen.insert(r1.clone());
    cands.retain(|(_, v)| seen.insert(v.clone()));

    let mut decoded = 0u64;
    let mut alias = 0u64;
    for (name, cand) in &cands {
        st.eval(1);
        let class = name.split(['@', '#']).next().unwrap_or("").to_string();
        let obj = match s.de(Codec::Native, Ty::CredResp, cand) {
            Ok(o) => o,
            Err(_) => {
                st.label(format!("undecodable:{}", class.split(':').take(2).collect::<Vec<_>>().join(":")));
                continue;
            }
        };
        let re = s.ser(Codec::Native, &obj);
        if re == r || re == r1 {
            // alternative encoding of a genuine response: C10's business
            alias += 1;
            st.label("alias-of-genuine(skipped, left to C10)");
            continue;
        }
        decoded += 1;
        match finish(&obj) {
            Err(_) => {}
            Ok(_) => {
                return Err(Fail::new(format!(
                    "client accepted a response different from the genuine one: {name}; mutant={} genuine={}",
                    hex::encode(cand),
                    hex::encode(&r)
                )))
            }
        }
        let short = if class.starts_with("subst") { class.clone() } else { class.split(':').next().unwrap_or("").to_string() };
        st.label(format!("rejected:{short}"));
    }
    let _ = alias;
    st.nontrivial_bulk(hash_of(&(m.name, c)), decoded);
    st.sample(|| json!({"suite": m.name, "pw": c.pw.describe(), "ctx": c.ctx.as_ref().map(|b| b.describe()),
        "explicit_ids": c.explicit_ids, "subst_mode": c.subst_mode, "mutants": cands.len(), "mutants_reaching_finish": decoded,
        "example": cands.iter().take(2).map(|(n, _)| n.clone()).collect::<Vec<_>>()}));
    Ok(())
}

pub const BUDGET: Budget = Budget {
    quick: (8, 4, 2),
    thorough: (8, 4, 2),
    shrink: 12,
};

pub fn run(cfg: &RunCfg) -> (Outcome, EvidenceExtra) {
    let out = run_property(cfg, "C04", crate::suites::suites20(), BUDGET, |s| strategy(cfg, s), check);
    let ev = EvidenceExtra {
        rule: "per generated honest login with genuine response R (and genuine second answer R'): mutants = single-byte substitutions at EVERY offset of R (quick: xor 0x01, xor 0x80 and one generated value per offset; thorough: all 255 values per offset, or 8 bit flips + 8 generated values for the slow P-384/P-521 suites), all 2^6-1 field-wise mixes of R with each of 7 other responses (R', other session, other user, other server setup, fake record, other user's record or other credential id for this very request), each of the 6 fields replaced by a fresh valid value, and per field multi-byte alterations whose differences cancel under XOR or preserve the byte sum or the multiset of bytes (same bit flipped in adjacent bytes and in first+last byte, adjacent transpositions, +1/-1 pairs, 0f/f0/ff triples, rotation, reversal). Each mutant is decoded and given to a clone of the pending client state; any Ok is a violation unless the mutant re-encodes to R or R' (alias, left to C10). R and R' must be accepted. evaluation = one mutant; non-trivial = mutants that decode and reach ClientLogin::finish; mutants deduplicated per case, cases distinct by hash".into(),
        assumptions: vec!["MAC forgeries that were not generated are out of reach".into()],
        exhaustive: Some(false),
        extra: [("exhaustive_part".to_string(), json!("offset x value substitutions are exhaustive in the thorough tier for the ristretto255/curve25519/P-256 suites"))].into_iter().collect(),
    };
    (out, ev)
}

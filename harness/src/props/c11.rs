//! C11 — invalid group elements and scalars are never accepted.

use proptest::prelude::*;
use serde::{Deserialize, Serialize};
use serde_json::json;

use crate::decoders;
use crate::fieldmap;
use crate::gen::{self, Tape};
use crate::known::KnownFindings;
use crate::ksf::{self, KsfSpec};
use crate::proto::*;
use crate::runner::*;
use crate::ensure;

#[derive(Clone, Debug, Serialize, Deserialize, Hash)]
pub struct Case {
    pub tape: Tape,
    pub fake_login: bool,
    /// generated invalid values per class in addition to the fixed table
    pub extra_random: u16,
}

pub fn strategy(cfg: &RunCfg, _s: &'static dyn Proto) -> BoxedStrategy<Case> {
    let extra = match cfg.tier {
        Tier::Quick => 4u16,
        Tier::Thorough => 40,
    };
    (gen::tape_plain(), any::<bool>())
        .prop_map(move |(tape, fake_login)| Case {
            tape,
            fake_login,
            extra_random: extra,
        })
        .boxed()
}

pub const TYPES: [Ty; 12] = [
    Ty::RegReq,
    Ty::RegResp,
    Ty::RegUpload,
    Ty::CredReq,
    Ty::CredResp,
    Ty::ServerReg,
    Ty::ServerSetup,
    Ty::ClientReg,
    Ty::ClientLogin,
    Ty::PublicKey,
    Ty::PrivateKey,
    Ty::KeyPair,
];

pub fn check(s: &'static dyn Proto, c: &Case, st: &mut Stats, known: &KnownFindings) -> CaseResult {
    ksf::set_default_spec(KsfSpec::Identity);
    let m = s.meta();
    let samples = decoders::samples(s, &c.tape.spec(), c.fake_login)
        .map_err(|e| Fail::new(format!("honest run for sample encodings failed: {e:?}")))?;
    let mut r = c.tape.sub(78).rng();
    let setup = samples.get(Ty::ServerSetup);
    let setup_native = s.ser(Codec::Native, setup);
    let extra_objs = vec![
        s.de(Codec::Native, Ty::PublicKey, &s.setup_public_key(setup))
            .map_err(|e| Fail::new(format!("valid public key rejected: {e:?}")))?,
        s.de(Codec::Native, Ty::PrivateKey, fieldmap::slice(&m, Ty::ServerSetup, "server_s_sk", &setup_native))
            .map_err(|e| Fail::new(format!("valid private key rejected: {e:?}")))?,
        s.de(Codec::Native, Ty::KeyPair, fieldmap::slice(&m, Ty::ServerSetup, "server_s_sk", &setup_native))
            .map_err(|e| Fail::new(format!("valid key pair rejected: {e:?}")))?,
    ];
    let case_hash = hash_of(&(m.name, c));
    let mut tuples = 0u64;
    for ty in TYPES {
        let o = if let Some(o) = extra_objs.iter().find(|o| o.ty == ty) {
            o
        } else {
            samples.get(ty)
        };
        let native = s.ser(Codec::Native, o);
        let images: Vec<(Codec, Vec<u8>)> = CODECS.iter().map(|cd| (*cd, s.ser(*cd, o))).collect();
        // valid originals are accepted by all three decoders
        for (cd, img) in &images {
            ensure!(
                s.de(*cd, ty, img).is_ok(),
                "valid {} rejected by its {cd:?} decoder",
                ty.name()
            );
        }
        let native_fields = fieldmap::fields(&m, ty);
        for (fname, kind, valid) in decoders::serde_fields(s, o) {
            let pseudo = fieldmap::Field {
                name: "x",
                kind,
                off: 0,
                len: valid.len(),
            };
            let invalids = decoders::invalid_encodings(&m, &pseudo, &valid, &mut r, c.extra_random as usize);
            for (class, bad) in &invalids {
                for (cd, img) in &images {
                    let mutated = match cd {
                        Codec::Native => match native_fields.iter().find(|f| f.name == fname) {
                            Some(f) => Some(fieldmap::splice(&native, f, bad)),
                            None => None, // serde-only position
                        },
                        Codec::Bincode => decoders::replace_in_bincode(img, &valid, bad),
                        Codec::Json => decoders::replace_in_json(img, &valid, bad),
                    };
                    let Some(mutated) = mutated else {
                        if *cd != Codec::Native {
                            // the shape of the serde images is not pinned by anything; a position
                            // the harness cannot address is skipped, visibly
                            st.label(format!("serde position not addressable: {}.{fname} in {cd:?}", ty.name()));
                        }
                        continue;
                    };
                    st.eval(1);
                    tuples += 1;
                    if s.de(*cd, ty, &mutated).is_ok() {
                        let class_key = class.split('#').next().unwrap_or(class).trim_end_matches(" (bit255 set)").to_string();
                        let sig = format!("C11/{:?}/{}/{}", kind, if m.ke == KeKind::Curve25519 && kind == crate::fieldmap::FieldKind::KePk { "curve25519" } else { "other" }, class_key);
                        let msg = format!(
                            "{} ({cd:?} decoder) accepted an invalid {kind:?} in field {fname}: class '{class}', bytes {}",
                            ty.name(),
                            hex::encode(bad)
                        );
                        if known.is_open(&sig) {
                            st.known_hit(&sig);
                        } else {
                            return Err(Fail::sig(sig, msg));
                        }
                    }
                    st.label(format!("{kind:?}:{}", class.split('#').next().unwrap_or(class)));
                }
            }
        }
    }
    st.nontrivial_bulk(case_hash, tuples);
    st.sample(|| json!({"suite": m.name, "tuples_(type,field,invalid_class,codec)": tuples,
        "example": {"type": "CredentialRequest", "field": "client_e_pk", "class": "identity"}}));
    Ok(())
}

pub const BUDGET: Budget = Budget {
    quick: (16, 16, 10),
    thorough: (240, 240, 160),
    shrink: 4,
};

pub fn run(cfg: &RunCfg) -> (Outcome, EvidenceExtra) {
    let out = run_property(cfg, "C11", crate::suites::suites20(), BUDGET, |s| strategy(cfg, s), check);
    let ev = EvidenceExtra {
        rule: "per generated honest run: for every type that holds group elements or scalars (5 messages, password file, server setup, client registration/login state, plus PublicKey/PrivateKey/KeyPair), for every such field (in the serde forms also the stored public keys of ServerSetup), every invalid encoding of the class table (identity; off-curve x searched upward from a valid x; x = p, p+1, ff..; x+p where representable; ristretto s+p, p, negative s, bit 255, non-square searched, all-ff; Curve25519 small-order u in {0,1,p-1,a,b} incl. u+p and bit-255 forms; scalars 0, n, n+1, ff.., valid+n, Curve25519 private keys with bit 255 set; plus generated values per class) is spliced in with all other fields valid and offered to the native, serde-bincode and serde-JSON decoders. Each invalid encoding is first confirmed invalid by an independent predicate built on the curve crates. Oracle: every decoder returns Err; valid originals are accepted by all three. evaluation = one (type, field, invalid value, codec) tuple, all distinct within a case; cases distinct by hash".into(),
        assumptions: vec!["alternative SEC1 tags of valid points are encoding aliases and belong to C10, not to C11".into(),
            "for Curve25519 private keys only zero and values >= 2^255 (bit 255 set) are classed as out-of-range scalars; whether the low clamp bits must already be cleared is not judged (RFC 7748 clamps any 32 bytes)".into()],
        exhaustive: Some(false),
        extra: [("exhaustive_part".to_string(), json!("the fixed invalid-class table is applied to every group-element/scalar field of every type through all three codecs"))].into_iter().collect(),
    };
    (out, ev)
}

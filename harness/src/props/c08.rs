//! C08 — unregistered users are indistinguishable from registered ones.

use proptest::prelude::*;
use rand::RngCore;
use serde::{Deserialize, Serialize};
use serde_json::json;

use crate::fieldmap::{self, slice};
use crate::gen::{self, BSpec, IdSpec, Tape};
use crate::known::KnownFindings;
use crate::ksf::{self, KsfSpec};
use crate::proto::*;
use crate::refmodel::{self as rm, Suite};
use crate::runner::*;
use crate::{ensure, ensure_eq};

#[derive(Clone, Debug, Serialize, Deserialize, Hash, PartialEq, Eq)]
pub enum Op {
    /// attempt for a user without password file; `new_request`: fresh client request, else repeat the previous one
    Fake { registered_cred: bool, new_request: bool },
    /// real login of the registered user (optionally with a wrong password)
    Real { wrong_pw: bool, new_request: bool },
}

#[derive(Clone, Debug, Serialize, Deserialize, Hash)]
pub struct Case {
    pub pw: BSpec,
    pub cred_real: BSpec,
    pub cred_unreg: BSpec,
    pub id_u: IdSpec,
    pub id_s: IdSpec,
    pub ctx: Option<BSpec>,
    pub ops: Vec<Op>,
    pub tape: Tape,
}

pub fn strategy(cfg: &RunCfg, _s: &'static dyn Proto) -> BoxedStrategy<Case> {
    let max_ops = match cfg.tier {
        Tier::Quick => 8usize,
        Tier::Thorough => 10,
    };
    let op = prop_oneof![
        5 => (prop::bool::weighted(0.3), prop::bool::weighted(0.4)).prop_map(|(registered_cred, new_request)| Op::Fake { registered_cred, new_request }),
        3 => (prop::bool::weighted(0.25), prop::bool::weighted(0.5)).prop_map(|(wrong_pw, new_request)| Op::Real { wrong_pw, new_request }),
    ];
    (
        gen::bytes_small(),
        gen::cred_id(),
        gen::cred_id(),
        prop_oneof![Just(IdSpec::Absent), gen::bytes_small().prop_map(IdSpec::Explicit)],
        prop_oneof![Just(IdSpec::Absent), gen::bytes_small().prop_map(IdSpec::Explicit)],
        gen::opt_ctx(gen::bytes_small()),
        prop_oneof![
            // construction: two fake attempts for one request and credential id plus a real
            // login, with generated extra operations inserted after the first attempt
            2 => (any::<bool>(), proptest::collection::vec((op.clone(), any::<u16>()), 0..=(max_ops - 3))).prop_map(|(registered_cred, extras)| {
                let mut ops = vec![
                    Op::Fake { registered_cred, new_request: true },
                    Op::Fake { registered_cred, new_request: false },
                    Op::Real { wrong_pw: false, new_request: true },
                ];
                for (o, pos) in extras {
                    // keep the repeated attempt directly after its first attempt
                    let at = 2 + crate::gen::pick(pos, ops.len() - 1);
                    ops.insert(at, o);
                }
                ops
            }),
            1 => proptest::collection::vec(op, 3..=max_ops),
        ],
        gen::tape_plain(),
    )
        .prop_map(|(pw, cred_real, cred_unreg, id_u, id_s, ctx, ops, tape)| Case {
            pw,
            cred_real,
            cred_unreg,
            id_u,
            id_s,
            ctx,
            ops,
            tape,
        })
        .boxed()
}

struct Attempt {
    fake: bool,
    req_no: usize,
    cred: Vec<u8>,
    resp: Vec<u8>,
    client_err: Option<PErr>,
}

pub fn check(s: &'static dyn Proto, c: &Case, st: &mut Stats, _k: &KnownFindings) -> CaseResult {
    ksf::set_default_spec(KsfSpec::Identity);
    let m = s.meta();
    let suite = Suite::of(&m);
    let pw = c.pw.bytes();
    let mut pw_wrong = pw.clone();
    pw_wrong.push(b'?');
    let cred_real = c.cred_real.bytes();
    let mut cred_unreg = c.cred_unreg.bytes();
    if cred_unreg == cred_real {
        cred_unreg.push(b'u');
    }
    let ctx = c.ctx.as_ref().map(|b| b.bytes());
    let t = |i: u64| c.tape.sub(i);
    let e = |what: &str, x: PErr| Fail::new(format!("honest step failed ({what}): {x:?}"));
    let setup = s.setup_new(&mut t(0).rng());
    let sb = s.ser(Codec::Native, &setup);
    let oprf_seed = slice(&m, Ty::ServerSetup, "oprf_seed", &sb).to_vec();
    let server_pk = s.setup_public_key(&setup);
    let id_u = c.id_u.resolve(&[]);
    let id_s = c.id_s.resolve(&server_pk);
    let ids = Ids {
        client: id_u.as_deref(),
        server: id_s.as_deref(),
    };
    let reg = crate::flow::register(s, &setup, &pw, &cred_real, ids, None, &t(1), &t(2)).map_err(|x| e("register", x))?;

    // one shared server tape for the whole history
    let mut server_rng = t(3).rng();
    let mut requests: Vec<(Obj, Obj, Vec<u8>)> = Vec::new(); // (request, client state, password used)
    let mut attempts: Vec<Attempt> = Vec::new();
    let mut pending_fake: Vec<Obj> = Vec::new();
    let mut real_fins: Vec<Obj> = Vec::new();
    let resp_len = m.len_of(Ty::CredResp);
    let mut wrong_pw_err: Option<PErr> = None;

    for (i, op) in c.ops.iter().enumerate() {
        let (fake, wrong, new_request, cred) = match op {
            Op::Fake { registered_cred, new_request } => (
                true,
                false,
                *new_request,
                if *registered_cred { cred_real.clone() } else { cred_unreg.clone() },
            ),
            Op::Real { wrong_pw, new_request } => (false, *wrong_pw, *new_request, cred_real.clone()),
        };
        let pw_use = if wrong { pw_wrong.clone() } else { pw.clone() };
        // a repeated request must come from a session with the same password
        let reuse = if new_request { None } else { requests.iter().rposition(|(_, _, p)| *p == pw_use) };
        let req_no = match reuse {
            Some(n) => n,
            None => {
                let (rq, cs) = s.client_login_start(&mut t(100 + i as u64).rng(), &pw_use).map_err(|x| e("client login start", x))?;
                requests.push((rq, cs, pw_use.clone()));
                requests.len() - 1
            }
        };
        let (rq, cs, _) = &requests[req_no];
        let record = if fake { None } else { Some(&reg.record) };
        let (resp, sst) = s
            .server_login_start(&mut server_rng, &setup, record, rq, &cred, ctx.as_deref(), ids)
            .map_err(|x| e("server login start", x))?;
        let rb = s.ser(Codec::Native, &resp);
        st.eval(1);
        // same length and structure as a real response; it decodes
        ensure_eq!(rb.len(), resp_len, "credential response length (fake={fake})");
        ensure!(s.de(Codec::Native, Ty::CredResp, &rb).is_ok(), "credential response (fake={fake}) does not decode");
        // the evaluation is the same function of (seed, cred, request) as for a registered user
        let rqb = s.ser(Codec::Native, rq);
        let blinded = slice(&m, Ty::CredReq, "blinded_element", &rqb).to_vec();
        let key = suite.oprf_key(&oprf_seed, &cred).ok_or_else(|| Fail::new("reference oprf_key"))?;
        let ev_ref = rm::oprf_evaluate(m.oprf, &key, &blinded).ok_or_else(|| Fail::new("reference evaluate"))?;
        ensure_eq!(slice(&m, Ty::CredResp, "evaluation_element", &rb).to_vec(), ev_ref, "evaluation element (fake={fake}) != oprf_key(seed, cred) * request");
        if fake {
            // ... and equals what the server computes with a real record / at registration
            let (r2, _) = s
                .server_login_start(&mut t(500 + i as u64).rng(), &setup, Some(&reg.record), rq, &cred, ctx.as_deref(), ids)
                .map_err(|x| e("server login start (real record, same request)", x))?;
            ensure_eq!(s.ser(Codec::Native, &r2)[..m.noe].to_vec(), ev_ref.clone(), "evaluation with a real record");
            let rr = s
                .de(Codec::Native, Ty::RegReq, &blinded)
                .and_then(|q| s.server_reg_start(&setup, &q, &cred))
                .map_err(|x| e("ServerRegistration::start on the same blinded element", x))?;
            ensure_eq!(s.ser(Codec::Native, &rr)[..m.noe].to_vec(), ev_ref.clone(), "evaluation at registration");
        }
        // the client's verdict
        let res = s.client_login_finish(s.clone_obj(cs), &requests[req_no].2, &resp, ctx.as_deref(), ids, None);
        let client_err = match (&res, fake, wrong) {
            (Ok(lf), false, false) => {
                let k = s.server_login_finish(s.clone_obj(&sst), &lf.fin).map_err(|x| e("server finish of an interleaved real login", x))?;
                ensure_eq!(k, lf.session_key, "session keys of an interleaved real login");
                ensure_eq!(lf.export_key, reg.export_key, "export key of an interleaved real login");
                real_fins.push(s.clone_obj(&lf.fin));
                None
            }
            (Err(x), false, false) => return Err(Fail::new(format!("op{i}: interleaved real login failed: {x:?}"))),
            (Ok(_), _, _) => return Err(Fail::new(format!("op{i}: client completed a login (fake={fake}, wrong password={wrong})"))),
            (Err(x), _, _) => Some(x.clone()),
        };
        if let Some(x) = &client_err {
            ensure_eq!(x, &PErr::InvalidLogin, "op{i}: client error for fake={fake}/wrong-password={wrong}");
            if wrong && !fake {
                wrong_pw_err = Some(x.clone());
            }
        }
        if fake {
            pending_fake.push(sst);
        }
        attempts.push(Attempt { fake, req_no, cred, resp: rb, client_err });
        st.label(if fake { "op:fake" } else if wrong { "op:real-wrong-password" } else { "op:real" });
    }
    // always have a wrong-password verdict to compare with
    if wrong_pw_err.is_none() {
        let (rq, cs) = s.client_login_start(&mut t(900).rng(), &pw_wrong).map_err(|x| e("client login start", x))?;
        let (resp, _) = s
            .server_login_start(&mut server_rng, &setup, Some(&reg.record), &rq, &cred_real, ctx.as_deref(), ids)
            .map_err(|x| e("server login start", x))?;
        wrong_pw_err = s.client_login_finish(cs, &pw_wrong, &resp, ctx.as_deref(), ids, None).err();
        ensure!(wrong_pw_err.is_some(), "client accepted a wrong password");
    }
    for a in attempts.iter().filter(|a| a.fake) {
        ensure_eq!(a.client_err, wrong_pw_err, "the client's error for an unregistered user differs from its error for a wrong password");
    }
    // freshness: across attempts for the same (request, cred) every field but the evaluation differs,
    // for fake responses exactly as for real ones
    let fields = fieldmap::fields(&m, Ty::CredResp);
    let mut repeated_fake = false;
    for i in 0..attempts.len() {
        for j in 0..i {
            let (a, b) = (&attempts[i], &attempts[j]);
            if a.req_no == b.req_no && a.cred == b.cred {
                for f in &fields {
                    let fa = &a.resp[f.off..f.off + f.len];
                    let fb = &b.resp[f.off..f.off + f.len];
                    if f.name == "evaluation_element" {
                        ensure!(fa == fb, "evaluation element differs between two attempts for the same request and credential id");
                    } else {
                        ensure!(
                            fa != fb,
                            "field {} repeats across two attempts for the same request (attempt kinds: fake={} and fake={}): {}",
                            f.name,
                            a.fake,
                            b.fake,
                            hex::encode(fa)
                        );
                    }
                }
                if a.fake && b.fake {
                    repeated_fake = true;
                }
                st.eval(1);
            }
        }
    }
    // no finalization can complete a fake state
    let mut rr = t(901).rng();
    for (n, stt) in pending_fake.iter().enumerate() {
        let mut cands: Vec<Vec<u8>> = vec![vec![0u8; m.nh], vec![0xffu8; m.nh]];
        for _ in 0..8 {
            let mut v = vec![0u8; m.nh];
            rr.fill_bytes(&mut v);
            cands.push(v);
        }
        for f in &real_fins {
            cands.push(s.ser(Codec::Native, f));
        }
        // finalizations computable without any secret
        {
            let alg = rm::oprf_hash(m.oprf);
            let consts: [Vec<u8>; 3] = [vec![0u8; m.nh], vec![0xffu8; m.nh], Vec::new()];
            for k in &consts {
                for msg in &consts {
                    cands.push(rm::hmac(alg, k, &[msg]));
                }
            }
        }
        for cand in cands {
            let fin = s.de(Codec::Native, Ty::CredFin, &cand).map_err(|x| e("decode finalization", x))?;
            match s.server_login_finish(s.clone_obj(stt), &fin) {
                // "no finalization message can complete the server side"; the error kind is C03's subject
                Err(_) => {}
                Ok(_) => return Err(Fail::new(format!("fake state #{n} was completed by finalization {}", hex::encode(&cand)))),
            }
            st.eval(1);
        }
    }
    let n_real_ok = real_fins.len();
    if repeated_fake && n_real_ok >= 1 {
        st.nontrivial(&(m.name, c));
        st.label("history:>=2 fake attempts for one request+cred and >=1 real login");
    }
    st.sample(|| json!({"suite": m.name, "ops": c.ops.iter().map(|o| format!("{o:?}")).collect::<Vec<_>>(),
        "response_len": resp_len, "client_error_for_fake": format!("{:?}", wrong_pw_err), "fake_states_probed": pending_fake.len()}));
    Ok(())
}

pub const BUDGET: Budget = Budget {
    quick: (200, 90, 36),
    thorough: (5000, 1600, 600),
    shrink: 60,
};

pub fn run(cfg: &RunCfg) -> (Outcome, EvidenceExtra) {
    let out = run_property(cfg, "C08", crate::suites::suites20(), BUDGET, |s| strategy(cfg, s), check);
    let ev = EvidenceExtra {
        rule: "case = history of 3..8 (thorough 3..10) ops over one server and ONE shared server RNG: fake attempt (unregistered credential id, or a registered one served without file; fresh or repeated client request), real login (right/wrong password; fresh or repeated request). Oracle for every response: real length, decodes, evaluation element = reference oprf_key(seed, cred)*request (= what ServerLogin::start gives with a real record and ServerRegistration::start gives for the same blinded element); across attempts for the same (request, cred) the evaluation is equal and masking nonce, masked response, server nonce, server key share and MAC are pairwise different, for fake and real responses alike; the client's finish returns exactly InvalidLoginError for fake attempts = its error for a wrong password; every pending fake state rejects zero/0xFF/random finalizations, publicly computable constants (HMAC of constant strings) and the finalizations of the interleaved real logins with InvalidLoginError; interleaved real logins succeed. evaluation = one response or relation; non-trivial = histories with >= 2 fake attempts for one (request, cred) and >= 1 successful real login; distinct by hash".into(),
        assumptions: vec!["'unpredictable' is decided as pairwise inequality (witnessing to fresh draws is C17's)".into()],
        exhaustive: None,
        extra: Default::default(),
    };
    (out, ev)
}

//! C10 — wire and storage encodings are strict and canonical.

use proptest::prelude::*;
use rand::RngCore;
use serde::{Deserialize, Serialize};
use serde_json::json;

use crate::decoders::{self, add_bytes};
use crate::fieldmap::{self, FieldKind};
use crate::gen::{self, Tape};
use crate::known::KnownFindings;
use crate::ksf::{self, KsfSpec};
use crate::proto::*;
use crate::runner::*;
use crate::ensure_eq;

#[derive(Clone, Debug, Serialize, Deserialize, Hash)]
pub struct Case {
    pub tape: Tape,
    pub fake_login: bool,
    /// 0: three values per offset; 1: all 255 values per offset (sampled offsets for the two large states)
    pub subst_mode: u8,
}

pub fn strategy(cfg: &RunCfg, _s: &'static dyn Proto) -> BoxedStrategy<Case> {
    let mode = match cfg.tier {
        Tier::Quick => 0u8,
        Tier::Thorough => 1,
    };
    (gen::tape_plain(), any::<bool>())
        .prop_map(move |(tape, fake_login)| Case {
            tape,
            fake_login,
            subst_mode: mode,
        })
        .boxed()
}

/// The decisive oracle, shared with the fuzz target: `b` is any byte string
/// offered to the native decoder of `ty`; `valid_len` is the suite's length.
/// Returns Err(signature, message) on a violation.
pub fn strict_oracle(s: &dyn Proto, ty: Ty, b: &[u8], valid_len: usize) -> Result<bool, (String, String)> {
    match s.de(Codec::Native, ty, b) {
        Err(_) => Ok(false),
        Ok(o) => {
            let re = s.ser(Codec::Native, &o);
            if b.len() != valid_len {
                let dir = if b.len() > valid_len { "over-long" } else { "truncated" };
                return Err((
                    format!("C10/{}/{}", ty.name(), dir),
                    format!(
                        "{} decoder accepted a {dir} input of {} bytes (valid length {valid_len}); re-encodes to {} bytes",
                        ty.name(),
                        b.len(),
                        re.len()
                    ),
                ));
            }
            if re != b {
                let m = s.meta();
                let diff = re.iter().zip(b.iter()).position(|(x, y)| x != y).unwrap_or(0);
                let f = fieldmap::field_at(&m, ty, diff);
                let (fname, kind) = f.map(|f| (f.name, format!("{:?}", f.kind))).unwrap_or(("?", "?".into()));
                let at_tag = f.map(|f| f.off == diff).unwrap_or(false);
                let class = if at_tag && b[diff] == 0x05 {
                    "sec1-compact-tag-0x05".to_string()
                } else if at_tag {
                    format!("leading-byte-{:02x}", b[diff])
                } else {
                    "non-canonical".to_string()
                };
                return Err((
                    format!("C10/{}/{}/{}", ty.name(), fname, class),
                    format!(
                        "{} decoder accepted a non-canonical encoding: field {fname} ({kind}) differs at offset {diff}: input byte {:02x}, re-encoded {:02x}; input={}",
                        ty.name(),
                        b[diff],
                        re[diff],
                        hex::encode(b)
                    ),
                ));
            }
            Ok(true)
        }
    }
}

pub fn check(s: &'static dyn Proto, c: &Case, st: &mut Stats, known: &KnownFindings) -> CaseResult {
    ksf::set_default_spec(KsfSpec::Identity);
    let m = s.meta();
    let samples = decoders::samples(s, &c.tape.spec(), c.fake_login)
        .map_err(|e| Fail::new(format!("honest run for sample encodings failed: {e:?}")))?;
    let mut vr = c.tape.sub(77).rng();
    let case_hash = hash_of(&(m.name, c));
    let mut n_mut = 0u64;
    let mut still_decode = 0u64;
    for ty in DECODERS11 {
        let v = s.ser(Codec::Native, samples.get(ty));
        let vlen = m.len_of(ty);
        ensure_eq!(v.len(), vlen, "valid encoding length of {}", ty.name());
        // round trip of the valid encoding
        match strict_oracle(s, ty, &v, vlen) {
            Ok(true) => {}
            Ok(false) => return Err(Fail::new(format!("valid encoding of {} rejected by its own decoder", ty.name()))),
            Err((sig, msg)) => return Err(Fail::sig(sig, msg)),
        }
        st.eval(1);
        let mut mutants: Vec<(&'static str, Vec<u8>)> = Vec::new();
        // every length 0..len+64
        for n in 0..vlen {
            mutants.push(("truncated", v[..n].to_vec()));
        }
        for extra in 1..=64usize {
            let mut a = v.clone();
            a.extend(std::iter::repeat(0u8).take(extra));
            mutants.push(("extended-zeros", a));
            let mut b = v.clone();
            let mut tail = vec![0u8; extra];
            vr.fill_bytes(&mut tail);
            b.extend_from_slice(&tail);
            mutants.push(("extended-random", b));
            let mut cc = v.clone();
            cc.extend(v.iter().cycle().take(extra));
            mutants.push(("extended-self-prefix", cc));
        }
        // doubled message
        let mut dbl = v.clone();
        dbl.extend_from_slice(&v);
        mutants.push(("doubled", dbl));
        // all 256 values of the leading byte of every group-element field
        for f in fieldmap::fields(&m, ty) {
            if f.kind.is_group_elem() {
                for val in 0..=255u8 {
                    if val != v[f.off] {
                        let mut x = v.clone();
                        x[f.off] = val;
                        mutants.push(("leading-byte", x));
                    }
                }
            }
            // non-reduced forms where representable
            if let Some(g) = decoders::field_group(&m, f.kind) {
                let le = g.little_endian();
                let cur = &v[f.off..f.off + f.len];
                let alt = match f.kind {
                    FieldKind::OprfScalar | FieldKind::KeSk => add_bytes(cur, &g.order_bytes(), le),
                    FieldKind::OprfElem | FieldKind::KePk if le => add_bytes(cur, &g.field_prime_bytes(), true),
                    FieldKind::OprfElem | FieldKind::KePk => add_bytes(&cur[1..], &g.field_prime_bytes(), false).map(|x| {
                        let mut t = vec![cur[0]];
                        t.extend_from_slice(&x);
                        t
                    }),
                    _ => None,
                };
                if let Some(a) = alt {
                    mutants.push(("non-reduced", fieldmap::splice(&v, &f, &a)));
                }
            }
        }
        // single-byte substitutions
        let big = matches!(ty, Ty::ClientLogin | Ty::ServerSetup);
        for off in 0..vlen {
            let all = c.subst_mode == 1 && (!big || off % 4 == (vr.next_u32() % 4) as usize);
            if all {
                for val in 0..=255u8 {
                    if val != v[off] {
                        let mut x = v.clone();
                        x[off] = val;
                        mutants.push(("subst", x));
                    }
                }
            } else {
                for val in [v[off] ^ 1, v[off] ^ 0x80, (vr.next_u32() & 0xff) as u8] {
                    if val != v[off] {
                        let mut x = v.clone();
                        x[off] = val;
                        mutants.push(("subst", x));
                    }
                }
            }
        }
        // random strings of the exact length
        for _ in 0..16 {
            let mut x = vec![0u8; vlen];
            vr.fill_bytes(&mut x);
            mutants.push(("random", x));
        }
        let mut seen = std::collections::HashSet::new();
        seen.insert(v.clone());
        for (class, b) in mutants {
            if !seen.insert(b.clone()) {
                continue;
            }
            st.eval(1);
            n_mut += 1;
            match strict_oracle(s, ty, &b, vlen) {
                Ok(true) => {
                    still_decode += 1;
                    st.label(format!("still-decodes:{class}"));
                }
                Ok(false) => {}
                Err((sig, msg)) => {
                    if known.is_open(&sig) {
                        st.known_hit(&sig);
                    } else {
                        return Err(Fail::sig(sig, msg));
                    }
                }
            }
        }
        st.label_n(format!("type:{}", ty.name()), 1);
    }
    st.label_n("mutants-that-still-decode", still_decode);
    st.nontrivial_bulk(case_hash, n_mut);
    st.sample(|| {
        let ty = Ty::CredResp;
        let v = s.ser(Codec::Native, samples.get(ty));
        json!({"suite": m.name, "type": ty.name(), "valid_encoding": hex::encode(&v), "mutants_this_case": n_mut, "still_decode": still_decode})
    });
    Ok(())
}

pub const BUDGET: Budget = Budget {
    quick: (3, 3, 2),
    thorough: (8, 8, 5),
    shrink: 4,
};

pub fn run(cfg: &RunCfg) -> (Outcome, EvidenceExtra) {
    let out = run_property(cfg, "C10", crate::suites::suites20(), BUDGET, |s| strategy(cfg, s), check);
    let ev = EvidenceExtra {
        rule: "per generated honest run: one valid encoding V of each of the 11 native decoders; mutants of V: every length 0..len (truncations) and len+1..len+64 (extended by zeros, generated bytes, a copy of V's prefix), V doubled, all 256 values of the leading byte of every group-element field, non-reduced scalars (+n) and field elements (+p) where representable, single-byte substitutions at every offset (quick: xor 1, xor 0x80, one generated value; thorough: all 255 values, every 4th offset for the two large states), 16 random strings of the exact length. Oracle: decode(V) ok and encode(decode(V)) = V; for every other string b: decode(b) = Ok(x) implies len(b) = len(V) and encode(x) = b. evaluation = one decoder call; non-trivial = mutants (deduplicated per type and case); 'mutants-that-still-decode' counts those that exercise the implication".into(),
        assumptions: vec!["Curve25519 public keys with bit 255 set or u >= p re-encode verbatim, so they satisfy the criterion as stated".into()],
        exhaustive: Some(false),
        extra: [("exhaustive_part".to_string(), json!("lengths 0..len+64 and the 256 leading-byte values of every group-element field are enumerated completely for every sampled valid encoding"))].into_iter().collect(),
    };
    (out, ev)
}

//! C05 — identities, context and credential identifier are bound, unambiguously.

use proptest::prelude::*;
use serde::{Deserialize, Serialize};
use serde_json::json;

use crate::flow;
use crate::gen::{self, BSpec, Tape};
use crate::known::KnownFindings;
use crate::ksf::{self, KsfSpec};
use crate::proto::*;
use crate::runner::*;
use crate::ensure;

/// how an identity (or context) value is passed at one step
#[derive(Clone, Debug, Serialize, Deserialize, Hash, PartialEq, Eq)]
pub enum V {
    Absent,
    Bytes(BSpec),
    /// explicit spelling of that party's own static public key (= the default)
    OwnKey,
    /// the *other* party's static public key
    OtherKey,
}

impl V {
    fn class(&self) -> &'static str {
        match self {
            V::Absent => "absent",
            V::Bytes(b) if b.is_empty() => "empty",
            V::Bytes(b) if b.len() <= 64 => "short",
            V::Bytes(b) if b.len() <= 257 => "255..257",
            V::Bytes(_) => "long",
            V::OwnKey => "own-key-spelled",
            V::OtherKey => "other-party-key",
        }
    }
}

#[derive(Clone, Debug, Serialize, Deserialize, Hash, PartialEq, Eq)]
pub struct PSet {
    pub ctx: V,
    pub id_u: V,
    pub id_s: V,
}

#[derive(Clone, Debug, Serialize, Deserialize, Hash)]
pub struct Case {
    pub family: String,
    /// parameters at registration (ctx unused), server login start, client login finish
    pub reg: PSet,
    pub srv: PSet,
    pub cli: PSet,
    pub cred_reg: BSpec,
    pub cred_srv: BSpec,
    pub pw: BSpec,
    pub tape: Tape,
    /// pass clones of the parameter structs to the API (exercises their Clone impls)
    #[serde(default)]
    pub clone_params: bool,
}

fn pool_value() -> BoxedStrategy<V> {
    prop_oneof![
        3 => Just(V::Absent),
        2 => Just(V::Bytes(BSpec::Lit(vec![]))),
        4 => proptest::collection::vec(any::<u8>(), 1..24).prop_map(|v| V::Bytes(BSpec::Lit(v))),
        3 => (prop::sample::select(vec![255usize, 256, 257, 65535, 1, 2]), any::<u64>())
                .prop_map(|(len, seed)| V::Bytes(BSpec::Filled { len, seed })),
        2 => Just(V::OwnKey),
        1 => Just(V::OtherKey),
    ]
    .boxed()
}

fn ctx_value() -> BoxedStrategy<V> {
    prop_oneof![
        3 => Just(V::Absent),
        2 => Just(V::Bytes(BSpec::Lit(vec![]))),
        4 => proptest::collection::vec(any::<u8>(), 1..24).prop_map(|v| V::Bytes(BSpec::Lit(v))),
        3 => (prop::sample::select(vec![255usize, 256, 257, 65535, 1]), any::<u64>())
                .prop_map(|(len, seed)| V::Bytes(BSpec::Filled { len, seed })),
    ]
    .boxed()
}

/// an equivalent spelling of `v` (same effective value)
fn respell(v: &V, alt: bool, is_ctx: bool) -> V {
    if !alt {
        return v.clone();
    }
    match v {
        V::Absent if is_ctx => V::Bytes(BSpec::Lit(vec![])),
        V::Bytes(b) if is_ctx && b.is_empty() => V::Absent,
        V::Absent => V::OwnKey,
        V::OwnKey => V::Absent,
        other => other.clone(),
    }
}

/// a near-miss alteration of `v` (usually a different effective value)
fn alter(v: &V, how: u8, seed: u64, is_ctx: bool) -> V {
    let bytes_of = |v: &V| -> Option<Vec<u8>> {
        match v {
            V::Bytes(b) => Some(b.bytes()),
            _ => None,
        }
    };
    match (how % 8, bytes_of(v)) {
        (0, Some(mut b)) if b.len() <= 65535 => {
            // 65535 -> 65536 crosses the encodable limit: the longer value must be refused
            b.push(0);
            V::Bytes(BSpec::Lit(b))
        }
        (1, Some(mut b)) if !b.is_empty() => {
            b.pop();
            V::Bytes(BSpec::Lit(b))
        }
        (2, Some(mut b)) if !b.is_empty() => {
            let i = (seed as usize) % b.len();
            b[i] ^= 1 << ((seed >> 32) % 8);
            V::Bytes(BSpec::Lit(b))
        }
        (3, Some(b)) if b.len() + 256 <= 65535 => {
            // k vs k+256: same tail, 256 extra leading bytes
            let mut v = gen::expand(256, seed);
            v.extend_from_slice(&b);
            V::Bytes(BSpec::Lit(v))
        }
        (4, Some(b)) if !b.is_empty() => {
            // 1-byte length prefix confusion: prefix the value with its own length byte
            let mut v = vec![(b.len() & 0xff) as u8];
            v.extend_from_slice(&b);
            if v.len() > 65535 {
                v.truncate(65535);
            }
            V::Bytes(BSpec::Lit(v))
        }
        (5, _) => match v {
            V::Absent => V::Bytes(BSpec::Lit(vec![])),
            V::Bytes(b) if b.is_empty() => {
                if is_ctx {
                    V::Bytes(BSpec::Lit(vec![0]))
                } else {
                    V::Absent
                }
            }
            _ => V::Absent,
        },
        (6, _) if !is_ctx => match v {
            V::OtherKey => V::OwnKey,
            _ => V::OtherKey,
        },
        _ => V::Bytes(BSpec::Lit(gen::expand(1 + (seed % 20) as usize, seed))),
    }
}

pub fn strategy(_s: &'static dyn Proto) -> BoxedStrategy<Case> {
    let base = (ctx_value(), pool_value(), pool_value(), gen::cred_id(), gen::bytes_small(), gen::tape());
    let equal = (base.clone(), proptest::collection::vec(any::<bool>(), 8)).prop_map(
        |((ctx, id_u, id_s, cred, pw, tape), alt)| {
            let reg = PSet {
                ctx: V::Absent,
                id_u: respell(&id_u, alt[0], false),
                id_s: respell(&id_s, alt[1], false),
            };
            let srv = PSet {
                ctx: respell(&ctx, alt[2], true),
                id_u: respell(&id_u, alt[3], false),
                id_s: respell(&id_s, alt[4], false),
            };
            let cli = PSet {
                ctx: respell(&ctx, alt[5], true),
                id_u: respell(&id_u, alt[6], false),
                id_s: respell(&id_s, alt[7], false),
            };
            Case {
                family: "equal-effective".into(),
                reg,
                srv,
                cli,
                cred_reg: cred.clone(),
                cred_srv: cred,
                pw,
                tape,
                clone_params: false,
            }
        },
    );
    let single = (base.clone(), 0u8..9, any::<u8>(), any::<u64>()).prop_map(
        |((ctx, id_u, id_s, cred, pw, tape), which, how, seed)| {
            let p = PSet {
                ctx: ctx.clone(),
                id_u: id_u.clone(),
                id_s: id_s.clone(),
            };
            let (mut reg, mut srv, mut cli) = (p.clone(), p.clone(), p);
            reg.ctx = V::Absent;
            let mut cred_srv = cred.clone();
            match which {
                0 => srv.ctx = alter(&ctx, how, seed, true),
                1 => cli.ctx = alter(&ctx, how, seed, true),
                2 => reg.id_u = alter(&id_u, how, seed, false),
                3 => srv.id_u = alter(&id_u, how, seed, false),
                4 => cli.id_u = alter(&id_u, how, seed, false),
                5 => reg.id_s = alter(&id_s, how, seed, false),
                6 => srv.id_s = alter(&id_s, how, seed, false),
                7 => cli.id_s = alter(&id_s, how, seed, false),
                _ => {
                    cred_srv = match alter(&V::Bytes(cred.clone()), how % 5, seed, true) {
                        V::Bytes(b) => b,
                        _ => BSpec::Lit(b"other".to_vec()),
                    }
                }
            }
            Case {
                family: format!("single-disagreement:{}", ["ctx@S", "ctx@C", "id_u@R", "id_u@S", "id_u@C", "id_s@R", "id_s@S", "id_s@C", "cred@S"][which as usize]),
                reg,
                srv,
                cli,
                cred_reg: cred,
                cred_srv,
                pw,
                tape,
                clone_params: false,
            }
        },
    );
    // one concatenation cut at two different pairs of split points
    let shifted = (
        proptest::collection::vec(any::<u8>(), 3..600),
        any::<u16>(),
        any::<u16>(),
        any::<u16>(),
        any::<u16>(),
        any::<bool>(),
        gen::cred_id(),
        gen::bytes_small(),
        gen::tape(),
    )
        .prop_map(|(sbytes, a1, b1, a2, b2, client_differs, cred, pw, tape)| {
            let cut = |a: u16, b: u16| {
                let x = gen::pick(a, sbytes.len() + 1);
                let y = gen::pick(b, sbytes.len() + 1);
                let (x, y) = if x <= y { (x, y) } else { (y, x) };
                PSet {
                    ctx: V::Bytes(BSpec::Lit(sbytes[..x].to_vec())),
                    id_u: V::Bytes(BSpec::Lit(sbytes[x..y].to_vec())),
                    id_s: V::Bytes(BSpec::Lit(sbytes[y..].to_vec())),
                }
            };
            let p1 = cut(a1, b1);
            let p2 = cut(a2, b2);
            let (reg, srv, cli) = if client_differs {
                (p1.clone(), p1, p2)
            } else {
                (p1.clone(), p2, p1)
            };
            Case {
                family: "boundary-shifted".into(),
                reg,
                srv,
                cli,
                cred_reg: cred.clone(),
                cred_srv: cred,
                pw,
                tape,
                clone_params: false,
            }
        });
    (prop_oneof![3 => equal, 6 => single, 3 => shifted], any::<bool>())
        .prop_map(|(mut c, cl)| {
            c.clone_params = cl;
            c
        })
        .boxed()
}

fn resolve(v: &V, own: &[u8], other: &[u8]) -> Option<Vec<u8>> {
    match v {
        V::Absent => None,
        V::Bytes(b) => Some(b.bytes()),
        V::OwnKey => Some(own.to_vec()),
        V::OtherKey => Some(other.to_vec()),
    }
}

pub fn check(s: &'static dyn Proto, c: &Case, st: &mut Stats, _k: &KnownFindings) -> CaseResult {
    ksf::set_default_spec(KsfSpec::Identity);
    set_clone_params(c.clone_params);
    let r = check_inner(s, c, st);
    set_clone_params(false);
    r
}

fn check_inner(s: &'static dyn Proto, c: &Case, st: &mut Stats) -> CaseResult {
    let m = s.meta();
    let pw = c.pw.bytes();
    let cred_reg = c.cred_reg.bytes();
    let cred_srv = c.cred_srv.bytes();
    let t = |i: u64| c.tape.sub(i);
    let setup = s.setup_new(&mut t(0).rng());
    let server_pk = s.setup_public_key(&setup);
    // the client's static key: dry run on the same tapes (identities do not enter its derivation)
    let dry = flow::register(s, &setup, &pw, &cred_reg, Ids::default(), None, &t(1), &t(2))
        .map_err(|e| Fail::new(format!("dry-run registration failed: {e:?}")))?;
    let up = s.ser(Codec::Native, &dry.upload);
    let client_pk = crate::fieldmap::slice(&m, Ty::RegUpload, "client_s_pk", &up).to_vec();

    let r_idu = resolve(&c.reg.id_u, &client_pk, &server_pk);
    let r_ids = resolve(&c.reg.id_s, &server_pk, &client_pk);
    let s_idu = resolve(&c.srv.id_u, &client_pk, &server_pk);
    let s_ids = resolve(&c.srv.id_s, &server_pk, &client_pk);
    let s_ctx = resolve(&c.srv.ctx, &[], &[]);
    let c_idu = resolve(&c.cli.id_u, &client_pk, &server_pk);
    let c_ids = resolve(&c.cli.id_s, &server_pk, &client_pk);
    let c_ctx = resolve(&c.cli.ctx, &[], &[]);

    let eff = |v: &Option<Vec<u8>>, default: &[u8]| v.clone().unwrap_or_else(|| default.to_vec());
    let idu_ok = eff(&r_idu, &client_pk) == eff(&s_idu, &client_pk) && eff(&s_idu, &client_pk) == eff(&c_idu, &client_pk);
    let ids_ok = eff(&r_ids, &server_pk) == eff(&s_ids, &server_pk) && eff(&s_ids, &server_pk) == eff(&c_ids, &server_pk);
    let ctx_ok = eff(&s_ctx, &[]) == eff(&c_ctx, &[]);
    let cred_ok = cred_reg == cred_srv;
    let expect_match = idu_ok && ids_ok && ctx_ok && cred_ok;
    // a value beyond the 65535-byte limit (only ever produced by extending a 65535-byte value)
    // must be refused by the step that receives it; it can never make a login succeed
    let over = |v: &Option<Vec<u8>>| v.as_ref().map(|b| b.len() > 65535).unwrap_or(false);
    let over_reg = over(&r_idu) || over(&r_ids);
    let over_srv = over(&s_idu) || over(&s_ids) || over(&s_ctx);

    let reg = flow::register(
        s,
        &setup,
        &pw,
        &cred_reg,
        Ids {
            client: r_idu.as_deref(),
            server: r_ids.as_deref(),
        },
        None,
        &t(1),
        &t(2),
    )
    ;
    let reg = match (reg, over_reg) {
        (Err(_), true) => {
            st.eval(1);
            st.label("verdict:over-limit-refused-at-registration");
            st.nontrivial(&(m.name, c));
            return Ok(());
        }
        (Ok(_), true) => return Err(Fail::new(format!("registration accepted an identity longer than 65535 bytes (family {})", c.family))),
        (Err(e), false) => return Err(Fail::new(format!("registration failed: {e:?}"))),
        (Ok(r), false) => r,
    };
    {
        let up2 = s.ser(Codec::Native, &reg.upload);
        ensure!(
            crate::fieldmap::slice(&m, Ty::RegUpload, "client_s_pk", &up2) == &client_pk[..],
            "client static key depends on the identities passed at registration"
        );
    }
    let lo = flow::login(
        s,
        &setup,
        Some(&reg.record),
        &pw,
        &cred_srv,
        s_ctx.as_deref(),
        Ids {
            client: s_idu.as_deref(),
            server: s_ids.as_deref(),
        },
        c_ctx.as_deref(),
        Ids {
            client: c_idu.as_deref(),
            server: c_ids.as_deref(),
        },
        None,
        &t(3),
        &t(4),
    )
    ;
    let lo = match (lo, over_srv) {
        (Err(_), true) => {
            st.eval(1);
            st.label("verdict:over-limit-refused-at-server-start");
            st.nontrivial(&(m.name, c));
            return Ok(());
        }
        (Ok(_), true) => return Err(Fail::new(format!("ServerLogin::start accepted a parameter longer than 65535 bytes (family {})", c.family))),
        (Err(e), false) => return Err(Fail::new(format!("login start failed: {e:?}"))),
        (Ok(l), false) => l,
    };
    st.eval(1);
    let why = format!(
        "family={} id_u_ok={idu_ok} id_s_ok={ids_ok} ctx_ok={ctx_ok} cred_ok={cred_ok}",
        c.family
    );
    if expect_match {
        let cl = lo
            .client
            .as_ref()
            .map_err(|e| Fail::new(format!("effective parameters agree but the client failed with {e:?} ({why})")))?;
        match &lo.server {
            Some(Ok(k)) => ensure!(k == &cl.session_key, "session keys differ ({why})"),
            other => return Err(Fail::new(format!("effective parameters agree but the server failed: {other:?} ({why})"))),
        }
        ensure!(cl.export_key == reg.export_key, "export key differs ({why})");
        st.label("verdict:match");
    } else {
        match &lo.client {
            Ok(_) => {
                return Err(Fail::new(format!(
                    "login succeeded although the effective parameters disagree ({why}); reg={:?} srv={:?} cli={:?}",
                    c.reg, c.srv, c.cli
                )))
            }
            Err(e) => st.label(format!("verdict:mismatch:{}", match e {
                PErr::InvalidLogin => "InvalidLogin".to_string(),
                other => format!("{other:?}"),
            })),
        }
    }
    st.label(format!("family:{}", c.family.split(':').next().unwrap_or("")));
    if c.family.starts_with("single") {
        st.label(c.family.clone());
    }
    for (n, v) in [("id_u", &c.cli.id_u), ("id_s", &c.cli.id_s), ("ctx", &c.cli.ctx)] {
        st.label(format!("cli.{n}:{}", v.class()));
    }
    let explicit = [&c.reg.id_u, &c.reg.id_s, &c.srv.ctx, &c.srv.id_u, &c.srv.id_s, &c.cli.ctx, &c.cli.id_u, &c.cli.id_s]
        .iter()
        .any(|v| **v != V::Absent);
    if explicit {
        st.nontrivial(&(m.name, c));
    }
    st.sample(|| json!({"suite": m.name, "family": c.family, "expect_match": expect_match,
        "reg": format!("{:?}", (c.reg.id_u.class(), c.reg.id_s.class())),
        "srv": format!("{:?}", (c.srv.ctx.class(), c.srv.id_u.class(), c.srv.id_s.class())),
        "cli": format!("{:?}", (c.cli.ctx.class(), c.cli.id_u.class(), c.cli.id_s.class())),
        "cred_equal": cred_ok}));
    Ok(())
}

pub const BUDGET: Budget = Budget {
    quick: (1000, 360, 110),
    thorough: (30000, 9000, 3000),
    shrink: 200,
};

pub fn run(cfg: &RunCfg) -> (Outcome, EvidenceExtra) {
    let out = run_property(cfg, "C05", crate::suites::suites20(), BUDGET, strategy, check);
    let ev = EvidenceExtra {
        rule: "case = (parameters at registration, at ServerLogin::start, at ClientLogin::finish, two credential ids) from three families: equal-effective (same effective values, different spellings: absent vs explicit own public key, absent vs empty context), single-disagreement (exactly one of ctx/id_u/id_s at one step or the credential id altered by append/drop/bit-flip/256-byte prefix/length-byte prefix/absent<->empty/other party's key), boundary-shifted (one byte string cut at two different pairs of split points into (ctx,id_u,id_s)). Oracle in both directions: login succeeds with equal keys iff the effective parameters agree at all three steps and the credential id is the registered one; otherwise ClientLogin::finish returns Err. non-trivial = at least one explicit parameter; distinct by hash of (suite, case)".into(),
        assumptions: vec!["hash/MAC collisions between different encodings do not occur".into(),
            "the client's static public key (its default identity) is learnt from a dry-run registration on the same tapes".into()],
        exhaustive: None,
        extra: Default::default(),
    };
    (out, ev)
}

//! C18 — externally held server keys are a transparent abstraction.

use proptest::prelude::*;
use serde::{Deserialize, Serialize};
use serde_json::json;

use crate::flow;
use crate::gen::{self, BSpec, IdSpec, Tape};
use crate::known::KnownFindings;
use crate::ksf::{self, KsfSpec};
use crate::proto::*;
use crate::remote::{self, RemoteCall};
use crate::runner::*;
use crate::{ensure, ensure_eq};

#[derive(Clone, Debug, Serialize, Deserialize, Hash)]
pub struct Case {
    pub pw: BSpec,
    pub cred: BSpec,
    pub id_u: IdSpec,
    pub id_s: IdSpec,
    pub ctx: Option<BSpec>,
    pub fake_record: bool,
    pub tape: Tape,
}

pub fn strategy(_s: &'static dyn Proto) -> BoxedStrategy<Case> {
    (
        gen::bytes_small(),
        gen::cred_id(),
        prop_oneof![Just(IdSpec::Absent), gen::bytes_small().prop_map(IdSpec::Explicit)],
        prop_oneof![Just(IdSpec::Absent), gen::bytes_small().prop_map(IdSpec::Explicit)],
        gen::opt_ctx(gen::bytes_small()),
        prop::bool::weighted(0.3),
        gen::tape(),
    )
        .prop_map(|(pw, cred, id_u, id_s, ctx, fake_record, tape)| Case {
            pw,
            cred,
            id_u,
            id_s,
            ctx,
            fake_record,
            tape,
        })
        .boxed()
}

fn only_allowed(calls: &[RemoteCall], op: &str) -> Result<(), Fail> {
    for c in calls {
        match c {
            RemoteCall::PublicKey | RemoteCall::DiffieHellman(_) => {}
            other => {
                return Err(Fail::new(format!(
                    "{op} used {other:?} on the external key (only public_key and diffie_hellman are allowed)"
                )))
            }
        }
    }
    Ok(())
}

pub fn check(s: &'static dyn Proto, c: &Case, st: &mut Stats, _k: &KnownFindings) -> CaseResult {
    ksf::set_default_spec(KsfSpec::Identity);
    remote::set_handle_mode(false);
    remote::set_short_handle(false);
    let m = s.meta();
    let pw = c.pw.bytes();
    let cred = c.cred.bytes();
    let ctx = flow::opt(&c.ctx);
    let t = |i: u64| c.tape.sub(i);
    let e = |what: &str, x: PErr| Fail::new(format!("step failed ({what}): {x:?}"));
    let sk = s.kg_random_sk(&mut t(0).rng());

    // the two servers: same private key, same tapes
    let direct = s.setup_new_with_key(&mut t(1).rng(), &sk).map_err(|x| e("direct setup", x))?;
    remote::reset(0);
    let rsetup = s.remote_setup_new_with_key(&mut t(1).rng(), &sk).map_err(|x| e("remote setup", x))?;
    let setup_calls = remote::take_calls();
    only_allowed(&setup_calls, "KeyPair::from_private_key")?;
    let server_pk = s.setup_public_key(&direct);
    ensure_eq!(s.remote_setup_serialize(rsetup.as_ref()), s.ser(Codec::Native, &direct), "ServerSetup::serialize differs between direct and external key");
    let id_u = c.id_u.resolve(&[]);
    let id_s = c.id_s.resolve(&server_pk);
    let ids = Ids {
        client: id_u.as_deref(),
        server: id_s.as_deref(),
    };

    // registration
    let (req, cst) = s.client_reg_start(&mut t(2).rng(), &pw).map_err(|x| e("client reg start", x))?;
    let resp_d = s.server_reg_start(&direct, &req, &cred).map_err(|x| e("server reg start (direct)", x))?;
    remote::reset(0);
    let resp_r = s.remote_server_reg_start(rsetup.as_ref(), &req, &cred).map_err(|x| e("server reg start (remote)", x))?;
    let reg_calls = remote::take_calls();
    only_allowed(&reg_calls, "ServerRegistration::start")?;
    ensure_eq!(s.ser(Codec::Native, &resp_r), s.ser(Codec::Native, &resp_d), "registration response differs with an external key");
    st.eval(2);
    let fin = s
        .client_reg_finish(cst, &mut t(3).rng(), &pw, &resp_d, ids, None)
        .map_err(|x| e("client reg finish", x))?;
    let record = s.server_reg_finish(&fin.upload);
    let rec = if c.fake_record { None } else { Some(&record) };

    // login
    let (lreq, lst) = s.client_login_start(&mut t(4).rng(), &pw).map_err(|x| e("client login start", x))?;
    let (lresp_d, sst_d) = s
        .server_login_start(&mut t(5).rng(), &direct, rec, &lreq, &cred, ctx.as_deref(), ids)
        .map_err(|x| e("server login start (direct)", x))?;
    let lresp_d_bytes = s.ser(Codec::Native, &lresp_d);
    let sst_d_bytes = s.ser(Codec::Native, &sst_d);
    remote::reset(0);
    let (lresp_r, sst_r) = s
        .remote_server_login_start(&mut t(5).rng(), rsetup.as_ref(), rec, &lreq, &cred, ctx.as_deref(), ids)
        .map_err(|x| e("server login start (remote)", x))?;
    let login_calls = remote::take_calls();
    only_allowed(&login_calls, "ServerLogin::start")?;
    ensure!(
        login_calls.iter().any(|c| matches!(c, RemoteCall::DiffieHellman(_))),
        "ServerLogin::start never asked the external key for a Diffie-Hellman (harness assumption broken)"
    );
    ensure_eq!(s.ser(Codec::Native, &lresp_r), s.ser(Codec::Native, &lresp_d), "credential response differs with an external key");
    ensure_eq!(s.ser(Codec::Native, &sst_r), s.ser(Codec::Native, &sst_d), "pending server state differs with an external key");
    st.eval(2);
    let cres = s.client_login_finish(lst, &pw, &lresp_r, ctx.as_deref(), ids, None);
    if c.fake_record {
        ensure!(cres.is_err(), "client accepted a fake-record response");
    } else {
        let lf = cres.map_err(|x| e("client login finish against the external-key server", x))?;
        let k_r = s.server_login_finish(sst_r, &lf.fin).map_err(|x| e("server finish (remote)", x))?;
        let k_d = s.server_login_finish(sst_d, &lf.fin).map_err(|x| e("server finish (direct)", x))?;
        ensure_eq!(k_r, lf.session_key, "session key (external key)");
        ensure_eq!(k_d, k_r, "session key differs between direct and external key");
        st.eval(2);
    }
    st.nontrivial(&(m.name, c));

    // ---- faults: every call index of ServerLogin::start
    let ncalls = login_calls.len() as u32;
    for n in 1..=ncalls + 1 {
        remote::reset(n);
        let r = guarded(|| s.remote_server_login_start(&mut t(5).rng(), rsetup.as_ref(), rec, &lreq, &cred, ctx.as_deref(), ids))
            .map_err(|p| Fail::new(format!("ServerLogin::start panicked when the external key failed at call {n}: {p}")))?;
        let made = remote::take_calls().len() as u32;
        st.eval(1);
        if n <= ncalls {
            match r {
                Err(PErr::Library(IErr::Custom(k))) if k == n => {}
                Err(x) => return Err(Fail::new(format!("external key failed at call {n} with Custom({n}) but ServerLogin::start returned {x:?}"))),
                Ok(_) => return Err(Fail::new(format!("external key failed at call {n} but ServerLogin::start still produced a response and state"))),
            }
            // whether the server talks to the key again after the failing call is not stated
            let _ = made;
            st.label(format!("fault@login-start:{n}/{ncalls}"));
        } else {
            let (a, b) = r.map_err(|x| e("no-fault control", x))?;
            ensure_eq!(s.ser(Codec::Native, &a), lresp_d_bytes, "no-fault control: response");
            ensure_eq!(s.ser(Codec::Native, &b), sst_d_bytes, "no-fault control: state");
        }
    }
    // ---- faults during ServerRegistration::start: however many calls it makes to the key
    // (none on the reference tree), a failure at call n must come back as that error
    for n in 1..=reg_calls.len() as u32 {
        remote::reset(n);
        let r = guarded(|| s.remote_server_reg_start(rsetup.as_ref(), &req, &cred))
            .map_err(|p| Fail::new(format!("ServerRegistration::start panicked when the external key failed at call {n}: {p}")))?;
        remote::take_calls();
        st.eval(1);
        match r {
            Err(PErr::Library(IErr::Custom(k))) if k == n => st.label("fault@registration-start"),
            Err(x) => return Err(Fail::new(format!("external key failed at call {n} of ServerRegistration::start with Custom({n}) but the operation returned {x:?}"))),
            Ok(_) => return Err(Fail::new(format!("external key failed at call {n} but ServerRegistration::start still produced a response"))),
        }
    }
    // ---- faults while building / restoring the setup
    let n_setup = setup_calls.len() as u32;
    for n in 1..=n_setup {
        remote::reset(n);
        let r = guarded(|| s.remote_setup_new_with_key(&mut t(1).rng(), &sk))
            .map_err(|p| Fail::new(format!("KeyPair::from_private_key panicked when the external key failed at call {n}: {p}")))?;
        remote::take_calls();
        st.eval(1);
        match r {
            Err(PErr::Library(IErr::Custom(k))) if k == n => st.label("fault@from_private_key"),
            Err(x) => return Err(Fail::new(format!("external key failed at call {n}; from_private_key returned {x:?}"))),
            Ok(_) => return Err(Fail::new("from_private_key succeeded although the external key failed")),
        }
    }
    let bytes = s.ser(Codec::Native, &direct);
    remote::reset(0);
    let restored = s.remote_setup_deserialize(&bytes).map_err(|x| e("ServerSetup::deserialize (remote)", x))?;
    let de_calls = remote::take_calls().len() as u32;
    ensure_eq!(s.remote_setup_serialize(restored.as_ref()), bytes, "ServerSetup<_, external> serialize/deserialize round trip");
    for n in 1..=de_calls {
        remote::reset(n);
        let r = guarded(|| s.remote_setup_deserialize(&bytes))
            .map_err(|p| Fail::new(format!("ServerSetup::deserialize panicked when the external key failed at call {n}: {p}")))?;
        remote::take_calls();
        st.eval(1);
        match r {
            Err(PErr::Library(IErr::Custom(k))) if k == n => st.label("fault@setup-deserialize"),
            Err(x) => return Err(Fail::new(format!("external key failed at call {n}; ServerSetup::deserialize returned {x:?}"))),
            Ok(_) => return Err(Fail::new("ServerSetup::deserialize succeeded although the external key failed")),
        }
    }
    // ---- an external key whose serialized form is an opaque handle, not the scalar:
    // a server restored from ServerSetup::serialize/deserialize must still behave like
    // the direct-key server (it may only learn the public key by asking the key)
    remote::reset(0);
    remote::set_handle_mode(true);
    let hr = (|| -> CaseResult {
        let hsetup = s.remote_setup_new_with_key(&mut t(1).rng(), &sk).map_err(|x| e("remote setup (handle mode)", x))?;
        let hbytes = s.remote_setup_serialize(hsetup.as_ref());
        assert!(hbytes != s.ser(Codec::Native, &direct), "HARNESS-BUG: handle mode did not change the serialized key");
        let restored = s
            .remote_setup_deserialize(&hbytes)
            .map_err(|x| Fail::new(format!("a server whose external key serializes as a handle cannot be restored: {x:?}")))?;
        remote::take_calls();
        let resp_h = s.remote_server_reg_start(restored.as_ref(), &req, &cred).map_err(|x| e("server reg start (restored, handle)", x))?;
        ensure_eq!(
            s.ser(Codec::Native, &resp_h),
            s.ser(Codec::Native, &resp_d),
            "registration response of a restored external-key (handle) server differs from the direct-key server"
        );
        let (lresp_h, sst_h) = s
            .remote_server_login_start(&mut t(5).rng(), restored.as_ref(), rec, &lreq, &cred, ctx.as_deref(), ids)
            .map_err(|x| e("server login start (restored, handle)", x))?;
        only_allowed(&remote::take_calls(), "ServerRegistration::start/ServerLogin::start (restored server)")?;
        ensure_eq!(s.ser(Codec::Native, &lresp_h), lresp_d_bytes, "credential response of a restored external-key (handle) server");
        ensure_eq!(s.ser(Codec::Native, &sst_h), sst_d_bytes, "pending state of a restored external-key (handle) server");
        Ok(())
    })();
    remote::set_handle_mode(false);
    hr?;
    st.eval(3);
    // ---- an external key that serializes as a 16-byte slot handle (SecretKey::Len != private key
    // length, as in the crate's documentation example): the server works, can be saved, and the
    // restored server behaves like the direct-key server
    remote::reset(0);
    remote::set_short_handle(true);
    let sr = (|| -> CaseResult {
        let hsetup = guarded(|| s.remote_setup_new_with_key(&mut t(1).rng(), &sk))
            .map_err(|p| Fail::new(format!("building a server around a slot-handle key panicked: {p}")))?
            .map_err(|x| e("remote setup (slot handle)", x))?;
        let hbytes = guarded(|| s.remote_setup_serialize(hsetup.as_ref()))
            .map_err(|p| Fail::new(format!("ServerSetup::serialize panicked for an external key with SecretKey::Len = 16: {p}")))?;
        let dbytes = s.ser(Codec::Native, &direct);
        ensure_eq!(hbytes.len(), dbytes.len() - m.nsk + 16, "length of ServerSetup<_, slot-handle key>::serialize");
        // everything but the key slot is the direct server's stored state
        ensure_eq!(&hbytes[..m.nh], &dbytes[..m.nh], "OPRF seed in the stored state of the slot-handle server");
        ensure_eq!(&hbytes[m.nh..m.nh + 8], &remote::SLOT_TAG[..], "key slot of the stored state is not the key's own serialization");
        ensure_eq!(&hbytes[m.nh + 16..], &dbytes[m.nh + m.nsk..], "fake key in the stored state of the slot-handle server");
        let restored = guarded(|| s.remote_setup_deserialize(&hbytes))
            .map_err(|p| Fail::new(format!("ServerSetup::deserialize panicked for an external key with SecretKey::Len = 16: {p}")))?
            .map_err(|x| Fail::new(format!("a server whose external key serializes as a 16-byte handle cannot be restored: {x:?}")))?;
        ensure_eq!(s.remote_setup_serialize(restored.as_ref()), hbytes, "slot-handle server: serialize/deserialize round trip");
        remote::take_calls();
        for (which, srv) in [("fresh", &hsetup), ("restored", &restored)] {
            let resp_h = s.remote_server_reg_start(srv.as_ref(), &req, &cred).map_err(|x| e("server reg start (slot handle)", x))?;
            ensure_eq!(s.ser(Codec::Native, &resp_h), s.ser(Codec::Native, &resp_d), "registration response of the {which} slot-handle server differs from the direct-key server");
            let (lresp_h, sst_h) = s
                .remote_server_login_start(&mut t(5).rng(), srv.as_ref(), rec, &lreq, &cred, ctx.as_deref(), ids)
                .map_err(|x| e("server login start (slot handle)", x))?;
            only_allowed(&remote::take_calls(), "ServerRegistration::start/ServerLogin::start (slot-handle server)")?;
            ensure_eq!(s.ser(Codec::Native, &lresp_h), lresp_d_bytes, "credential response of the {which} slot-handle server");
            ensure_eq!(s.ser(Codec::Native, &sst_h), sst_d_bytes, "pending state of the {which} slot-handle server");
        }
        Ok(())
    })();
    remote::set_short_handle(false);
    sr?;
    st.eval(6);
    st.label("slot-handle key (SecretKey::Len = 16)");
    remote::reset(0);
    st.label(if c.fake_record { "record:none" } else { "record:real" });
    st.sample(|| json!({"suite": m.name, "pw": c.pw.describe(), "fake_record": c.fake_record,
        "external_key_calls_in_login_start": login_calls.iter().map(|c| match c { RemoteCall::DiffieHellman(_) => "diffie_hellman", RemoteCall::PublicKey => "public_key", RemoteCall::Serialize => "serialize", RemoteCall::Deserialize(_) => "deserialize" }).collect::<Vec<_>>(),
        "fault_positions": ncalls + n_setup + de_calls}));
    Ok(())
}

pub const BUDGET: Budget = Budget {
    quick: (400, 160, 60),
    thorough: (10000, 3000, 1000),
    shrink: 60,
};

pub fn run(cfg: &RunCfg) -> (Outcome, EvidenceExtra) {
    let out = run_property(cfg, "C18", crate::suites::suites20(), BUDGET, strategy, check);
    let ev = EvidenceExtra {
        rule: "case = inputs/tapes as C01 (real or absent password file); the server is built twice from the same private key and the same tapes: ServerSetup<CS> and ServerSetup<CS, RemoteKey> where RemoteKey is a harness implementation of the public SecretKey trait that journals every call. Differential oracle: ServerSetup::serialize, registration response, credential response, pending state and both session keys are byte-identical; during ServerRegistration::start / ServerLogin::start / from_private_key only public_key and diffie_hellman are called. Fault oracle: for every call index n the operation makes (ServerLogin::start, KeyPair::from_private_key, ServerSetup::deserialize) a key failing at call n with Custom(n) makes the operation return exactly LibraryError(Custom(n)), without panic and without output; n = calls+1 is the no-fault control. Additionally an external key whose serialize() is an opaque handle (resolved by its own deserialize) is saved and restored through ServerSetup::serialize/deserialize and must still produce the direct-key server's responses; the same with a second key type whose serialization is a 16-byte slot handle (SecretKey::Len differs from the private-key length of every group, as in the crate's documentation example): building, ServerSetup::serialize/deserialize (no panic, key slot = the key's own serialization, rest = the direct server's state) and the responses of the fresh and the restored server. evaluation = one comparison or fault position; distinct by hash of (suite, case)".into(),
        assumptions: vec!["fault positions are exhaustive per sampled input".into()],
        exhaustive: Some(false),
        extra: Default::default(),
    };
    (out, ev)
}

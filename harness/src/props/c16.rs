//! C16 — the export key is stable, separated and never leaves the client.

use std::collections::BTreeMap;

use proptest::prelude::*;
use serde::{Deserialize, Serialize};
use serde_json::json;

use crate::gen::{self, BSpec, Tape};
use crate::known::KnownFindings;
use crate::ksf::{self, KsfSpec};
use crate::proto::*;
use crate::runner::*;
use crate::{ensure, ensure_eq};

#[derive(Clone, Debug, Serialize, Deserialize, Hash, PartialEq, Eq)]
pub enum Op {
    /// (re-)register `user` at `server` with password `pw` (index into the case's pool)
    Register { server: u8, user: u8, pw: u8 },
    /// log `user` in at `server`; `wrong_pw`: use another pool password than the registered one
    Login { server: u8, user: u8, ctx: Option<BSpec>, wrong_pw: bool },
}

#[derive(Clone, Debug, Serialize, Deserialize, Hash)]
pub struct Case {
    pub pws: Vec<BSpec>,
    pub ops: Vec<Op>,
    pub explicit_ids: bool,
    pub tape: Tape,
}

fn password() -> BoxedStrategy<BSpec> {
    prop_oneof![
        3 => proptest::collection::vec(any::<u8>(), 16..48).prop_map(BSpec::Lit),
        2 => gen::bytes_small(),
        1 => (prop::sample::select(vec![16usize, 64, 300]), any::<u64>()).prop_map(|(len, seed)| BSpec::Filled { len, seed }),
    ]
    .boxed()
}

pub fn strategy(cfg: &RunCfg, _s: &'static dyn Proto) -> BoxedStrategy<Case> {
    let max_ops = match cfg.tier {
        Tier::Quick => 10usize,
        Tier::Thorough => 14,
    };
    let op = prop_oneof![
        2 => (prop::sample::select(vec![0u8, 0, 0, 1]), prop::sample::select(vec![0u8, 0, 0, 1, 1, 2]), 0u8..3)
            .prop_map(|(server, user, pw)| Op::Register { server, user, pw }),
        3 => (prop::sample::select(vec![0u8, 0, 0, 1]), prop::sample::select(vec![0u8, 0, 0, 1, 1, 2]), gen::opt_ctx(gen::bytes_small()), prop::bool::weighted(0.15))
            .prop_map(|(server, user, ctx, wrong_pw)| Op::Login { server, user, ctx, wrong_pw }),
    ];
    // construction, not rejection: 2 of 3 histories are built around a focus user that
    // registers, logs in, re-registers (same or other password) and logs in twice more,
    // with generated extra operations inserted at generated positions
    let focused = (
        prop::sample::select(vec![0u8, 1]),
        0u8..3,
        0u8..3,
        0u8..3,
        proptest::collection::vec(gen::opt_ctx(gen::bytes_small()), 3),
        proptest::collection::vec((op.clone(), any::<u16>()), 0..=(max_ops - 5)),
    )
        .prop_map(|(server, user, pw1, pw2, ctxs, extras)| {
            let mut ops = vec![
                Op::Register { server, user, pw: pw1 },
                Op::Login { server, user, ctx: ctxs[0].clone(), wrong_pw: false },
                Op::Register { server, user, pw: pw2 },
                Op::Login { server, user, ctx: ctxs[1].clone(), wrong_pw: false },
                Op::Login { server, user, ctx: ctxs[2].clone(), wrong_pw: false },
            ];
            for (o, pos) in extras {
                let at = gen::pick(pos, ops.len() + 1);
                ops.insert(at, o);
            }
            ops
        });
    let free = proptest::collection::vec(op, 3..=max_ops);
    (
        proptest::collection::vec(password(), 3),
        prop_oneof![2 => focused, 1 => free],
        any::<bool>(),
        gen::tape_plain(),
    )
        .prop_map(|(pws, ops, explicit_ids, tape)| Case {
            pws,
            ops,
            explicit_ids,
            tape,
        })
        .boxed()
}

struct Current {
    record: Obj,
    export_key: Vec<u8>,
    pw: usize,
    reg_no: usize,
}

fn find(hay: &[u8], needle: &[u8]) -> bool {
    !needle.is_empty() && hay.len() >= needle.len() && hay.windows(needle.len()).any(|w| w == needle)
}

pub fn check(s: &'static dyn Proto, c: &Case, st: &mut Stats, _k: &KnownFindings) -> CaseResult {
    ksf::set_default_spec(KsfSpec::Identity);
    let m = s.meta();
    let mut pws: Vec<Vec<u8>> = c.pws.iter().map(|b| b.bytes()).collect();
    // pool passwords must be pairwise different
    for i in 0..pws.len() {
        // append until entry i differs from every earlier entry (one pass is not enough: the
        // altered entry may collide with an entry that was already passed)
        while (0..i).any(|j| pws[i] == pws[j]) {
            pws[i].push(i as u8 + 1);
        }
    }
    let t = |i: u64| c.tape.sub(i);
    let setups = [s.setup_new(&mut t(0).rng()), s.setup_new(&mut t(1).rng())];
    let (idu, ids_) = if c.explicit_ids {
        (Some(b"u".to_vec()), Some(b"s".to_vec()))
    } else {
        (None, None)
    };
    let ids = Ids {
        client: idu.as_deref(),
        server: ids_.as_deref(),
    };
    let e = |what: &str, x: PErr| Fail::new(format!("step failed ({what}): {x:?}"));

    let mut model: BTreeMap<(u8, u8), Current> = BTreeMap::new();
    let mut wire: Vec<(String, Vec<u8>)> = Vec::new(); // everything that crosses the network or is stored by the server
    let mut export_keys: Vec<(String, Vec<u8>)> = Vec::new();
    let mut session_keys: Vec<(String, Vec<u8>)> = Vec::new();
    let mut n_reg = 0usize;
    let mut n_login_ok = 0usize;
    let mut rereg = false;
    let mut logins_per_user: BTreeMap<(u8, u8), usize> = BTreeMap::new();
    let mut tape_no = 10u64;
    for (i, op) in c.ops.iter().enumerate() {
        match op {
            Op::Register { server, user, pw } => {
                let cred = format!("user-{user}").into_bytes();
                let pwb = &pws[*pw as usize % pws.len()];
                let (req, cst) = s.client_reg_start(&mut t(tape_no).rng(), pwb).map_err(|x| e("client reg start", x))?;
                let resp = s.server_reg_start(&setups[*server as usize], &req, &cred).map_err(|x| e("server reg start", x))?;
                let fin = s
                    .client_reg_finish(cst, &mut t(tape_no + 1).rng(), pwb, &resp, ids, None)
                    .map_err(|x| e("client reg finish", x))?;
                tape_no += 2;
                let record = s.server_reg_finish(&fin.upload);
                wire.push((format!("op{i}:registration_request"), s.ser(Codec::Native, &req)));
                wire.push((format!("op{i}:registration_response"), s.ser(Codec::Native, &resp)));
                wire.push((format!("op{i}:registration_upload"), s.ser(Codec::Native, &fin.upload)));
                wire.push((format!("op{i}:password_file"), s.ser(Codec::Native, &record)));
                wire.push((format!("op{i}:password_file(bincode)"), s.ser(Codec::Bincode, &record)));
                if model.contains_key(&(*server, *user)) {
                    rereg = true;
                }
                export_keys.push((format!("op{i}:register(server {server}, user {user}, pw#{pw})"), fin.export_key.clone()));
                model.insert(
                    (*server, *user),
                    Current {
                        record,
                        export_key: fin.export_key,
                        pw: *pw as usize % pws.len(),
                        reg_no: n_reg,
                    },
                );
                n_reg += 1;
                st.eval(1);
            }
            Op::Login { server, user, ctx, wrong_pw } => {
                let cred = format!("user-{user}").into_bytes();
                let cur = model.get(&(*server, *user));
                let pw_idx = match (cur, wrong_pw) {
                    (Some(c), false) => c.pw,
                    (Some(c), true) => (c.pw + 1) % pws.len(),
                    (None, _) => 0,
                };
                let pwb = &pws[pw_idx];
                let ctxb = ctx.as_ref().map(|b| b.bytes());
                let (req, cst) = s.client_login_start(&mut t(tape_no).rng(), pwb).map_err(|x| e("client login start", x))?;
                let (resp, sst) = s
                    .server_login_start(
                        &mut t(tape_no + 1).rng(),
                        &setups[*server as usize],
                        cur.map(|c| &c.record),
                        &req,
                        &cred,
                        ctxb.as_deref(),
                        ids,
                    )
                    .map_err(|x| e("server login start", x))?;
                tape_no += 2;
                wire.push((format!("op{i}:KE1"), s.ser(Codec::Native, &req)));
                wire.push((format!("op{i}:KE2"), s.ser(Codec::Native, &resp)));
                let r = s.client_login_finish(cst, pwb, &resp, ctxb.as_deref(), ids, None);
                let expect_ok = cur.is_some() && !wrong_pw;
                match (expect_ok, r) {
                    (true, Ok(lf)) => {
                        let cur = cur.unwrap();
                        ensure_eq!(
                            lf.export_key,
                            cur.export_key,
                            "op{i}: login returned another export key than registration #{} of (server {server}, user {user})",
                            cur.reg_no
                        );
                        let sk = s.server_login_finish(sst, &lf.fin).map_err(|x| e("server login finish", x))?;
                        ensure_eq!(sk, lf.session_key, "session keys");
                        wire.push((format!("op{i}:KE3"), s.ser(Codec::Native, &lf.fin)));
                        session_keys.push((format!("op{i}:login"), lf.session_key));
                        n_login_ok += 1;
                        *logins_per_user.entry((*server, *user)).or_insert(0) += 1;
                    }
                    (true, Err(x)) => return Err(Fail::new(format!("op{i}: honest login failed: {x:?}"))),
                    (false, Ok(_)) => return Err(Fail::new(format!("op{i}: login succeeded without matching registration/password"))),
                    (false, Err(_)) => {}
                }
                st.eval(1);
            }
        }
    }
    // another server yields a different export key even when the client replays the very same
    // randomness (same password, user, identities and client tapes at both servers)
    {
        let cred = b"user-0".to_vec();
        let pwb = &pws[0];
        let mut eks: Vec<Vec<u8>> = Vec::new();
        let mut uploads: Vec<Vec<u8>> = Vec::new();
        for setup in &setups {
            let (req, cst) = s.client_reg_start(&mut t(900).rng(), pwb).map_err(|x| e("client reg start", x))?;
            let resp = s.server_reg_start(setup, &req, &cred).map_err(|x| e("server reg start", x))?;
            let fin = s.client_reg_finish(cst, &mut t(901).rng(), pwb, &resp, ids, None).map_err(|x| e("client reg finish", x))?;
            uploads.push(s.ser(Codec::Native, &fin.upload));
            eks.push(fin.export_key);
        }
        ensure!(eks[0] != eks[1], "the same registration (same client tapes) at two unrelated servers returns the same export key");
        // ... and so does another user or another password at the same server, even with identical
        // client tapes and credential identifiers that share a long prefix
        let prefix = gen::expand(40 + (c.ops.len() * 37) % 400, 99);
        let mk_cred = |tail: &[u8]| {
            let mut v = prefix.clone();
            v.extend_from_slice(tail);
            v
        };
        let mut variants: Vec<(String, Vec<u8>)> = Vec::new();
        for (what, pw_i, cred_i) in [("base", 0usize, mk_cred(b"alice")), ("other user", 0, mk_cred(b"bob")), ("other password", 1, mk_cred(b"alice"))] {
            let (req, cst) = s.client_reg_start(&mut t(900).rng(), &pws[pw_i]).map_err(|x| e("client reg start", x))?;
            let resp = s.server_reg_start(&setups[0], &req, &cred_i).map_err(|x| e("server reg start", x))?;
            let fin = s.client_reg_finish(cst, &mut t(901).rng(), &pws[pw_i], &resp, ids, None).map_err(|x| e("client reg finish", x))?;
            variants.push((what.to_string(), fin.export_key));
        }
        for (what, ek) in &variants[1..] {
            ensure!(ek != &variants[0].1, "{what} (same server, same client tapes, credential ids sharing a {}-byte prefix) yields the same export key", prefix.len());
        }
        st.eval(2);
        let mk = |u: &Vec<u8>| crate::fieldmap::slice(&m, Ty::RegUpload, "masking_key", u).to_vec();
        ensure!(mk(&uploads[0]) != mk(&uploads[1]), "the same registration at two unrelated servers yields the same masking key");
        st.eval(2);
    }
    // a registration finished twice from the same kept state on one continuing generator (the
    // upload got lost, the client retries) is a new registration: different nonce, different export key
    {
        let mut shared = t(950).rng();
        let cred = b"user-0".to_vec();
        let (req, cst) = s.client_reg_start(&mut shared, &pws[0]).map_err(|x| e("client reg start", x))?;
        let resp = s.server_reg_start(&setups[0], &req, &cred).map_err(|x| e("server reg start", x))?;
        let f1 = s.client_reg_finish(s.clone_obj(&cst), &mut shared, &pws[0], &resp, ids, None).map_err(|x| e("client reg finish", x))?;
        let f2 = s.client_reg_finish(s.clone_obj(&cst), &mut shared, &pws[0], &resp, ids, None).map_err(|x| e("client reg finish (retry)", x))?;
        ensure!(f1.export_key != f2.export_key, "a retried registration finish on the same continuing RNG returns the same export key");
        ensure!(s.ser(Codec::Native, &f1.upload) != s.ser(Codec::Native, &f2.upload), "a retried registration finish produces a byte-identical upload");
        st.eval(2);
    }
    // separation: export keys of distinct registrations pairwise different, and different from every session key
    for i in 0..export_keys.len() {
        for j in 0..i {
            ensure!(
                export_keys[i].1 != export_keys[j].1,
                "two distinct registrations share an export key: {} and {}",
                export_keys[j].0,
                export_keys[i].0
            );
        }
        for (n, k) in &session_keys {
            ensure!(&export_keys[i].1 != k, "export key of {} equals the session key of {n}", export_keys[i].0);
        }
    }
    for i in 0..session_keys.len() {
        for j in 0..i {
            ensure!(session_keys[i].1 != session_keys[j].1, "two sessions share a session key: {} and {}", session_keys[j].0, session_keys[i].0);
        }
    }
    // no secret of >= 16 bytes appears verbatim on the wire or in a password file
    let mut secrets: Vec<(String, Vec<u8>)> = Vec::new();
    secrets.extend(export_keys.iter().map(|(n, k)| (format!("export key of {n}"), k.clone())));
    secrets.extend(session_keys.iter().map(|(n, k)| (format!("session key of {n}"), k.clone())));
    for (i, p) in pws.iter().enumerate() {
        let distinct = p.iter().collect::<std::collections::BTreeSet<_>>().len();
        if p.len() >= 16 && distinct >= 8 {
            secrets.push((format!("password #{i}"), p.clone()));
            st.label("password>=16-bytes-checked");
        }
    }
    for (sn, sec) in &secrets {
        for (wn, w) in &wire {
            st.eval(1);
            if find(w, sec) {
                return Err(Fail::new(format!("{sn} appears verbatim in {wn}: secret={} message={}", hex::encode(sec), hex::encode(w))));
            }
        }
    }
    let multi_login = logins_per_user.values().any(|n| *n >= 2);
    if rereg && multi_login {
        st.nontrivial(&(m.name, c));
        st.label("history:re-registration+repeated-logins");
    }
    st.label(format!("registrations:{}", n_reg.min(6)));
    st.label(format!("successful-logins:{}", n_login_ok.min(8)));
    st.sample(|| json!({"suite": m.name, "ops": c.ops.iter().map(|o| match o {
            Op::Register { server, user, pw } => format!("register(s{server},u{user},pw#{pw})"),
            Op::Login { server, user, ctx, wrong_pw } => format!("login(s{server},u{user},ctx={},wrong_pw={wrong_pw})", ctx.is_some()),
        }).collect::<Vec<_>>(), "secrets_scanned": secrets.len(), "wire_items": wire.len()}));
    Ok(())
}

pub const BUDGET: Budget = Budget {
    quick: (400, 150, 50),
    thorough: (9000, 3000, 900),
    shrink: 120,
};

pub fn run(cfg: &RunCfg) -> (Outcome, EvidenceExtra) {
    let out = run_property(cfg, "C16", crate::suites::suites20(), BUDGET, |s| strategy(cfg, s), check);
    let ev = EvidenceExtra {
        rule: "case = history (3..10 ops, thorough 3..14) over {register/re-register(server, user, password), login(server, user, context, right/wrong password)} for 3 users, 3 passwords, 2 servers, interpreted against a model map (server,user) -> current registration. Oracle: every login with a matching registration succeeds and returns exactly the export key of the user's CURRENT registration (whatever context, tape or earlier logins), all others fail; export keys of distinct registrations (incl. same password re-registration, other user, other server) are pairwise different and differ from every session key; session keys pairwise different; the same registration replayed with identical client tapes at the two servers gives different export and masking keys; no export key, session key or password of >= 16 bytes with >= 8 distinct byte values occurs as a substring of any registration/login message or password file (native and bincode image) of the history. evaluation = one op or one (secret, message) scan; non-trivial = histories with a re-registration and >= 2 successful logins of one user; distinct by hash".into(),
        assumptions: vec!["coincidental 16-byte substring matches are treated as impossible".into()],
        exhaustive: None,
        extra: Default::default(),
    };
    (out, ev)
}

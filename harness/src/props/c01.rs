//! C01 — honest registration + login always agree on keys.

use proptest::prelude::*;
use serde::{Deserialize, Serialize};
use serde_json::json;

use crate::flow;
use crate::gen::{self, BSpec, IdSpec, Tape};
use crate::known::KnownFindings;
use crate::ksf::{self, KsfSpec};
use crate::proto::*;
use crate::runner::*;
use crate::ensure_eq;

#[derive(Clone, Debug, Serialize, Deserialize, Hash)]
pub struct Case {
    pub pw: BSpec,
    pub cred: BSpec,
    pub id_u: IdSpec,
    pub id_s: IdSpec,
    pub ctx: Option<BSpec>,
    pub ksf: Option<KsfSpec>,
    pub tape: Tape,
    /// pass clones of the parameter structs to the API (exercises their Clone impls)
    #[serde(default)]
    pub clone_params: bool,
}

pub fn ksf_for(s: &dyn Proto, argon_default_weight: u32) -> BoxedStrategy<Option<KsfSpec>> {
    match s.meta().ksf {
        KsfKind::Dyn => gen::ksf_sel(argon_default_weight),
        KsfKind::RealIdentity => prop_oneof![Just(None), Just(Some(KsfSpec::Identity))].boxed(),
        KsfKind::Zst => prop_oneof![Just(None), Just(Some(KsfSpec::H(ksf::ZST_FAMILY)))].boxed(),
        KsfKind::RealArgon2 => prop_oneof![
            2 => Just(None),
            1 => Just(Some(KsfSpec::Argon2Default)),
            2 => Just(Some(KsfSpec::Argon2 { m_kib: 16, t: 1, p: 1 })),
        ]
        .boxed(),
    }
}

pub fn strategy(s: &'static dyn Proto) -> BoxedStrategy<Case> {
    (
        gen::bytes_param(),
        gen::cred_id(),
        gen::id_spec(gen::bytes_param()),
        gen::id_spec(gen::bytes_param()),
        gen::opt_ctx(gen::bytes_param()),
        ksf_for(s, 1),
        gen::tape(),
        any::<bool>(),
    )
        .prop_map(|(pw, cred, id_u, id_s, ctx, ksf, tape, clone_params)| Case {
            pw,
            cred,
            id_u,
            id_s,
            ctx,
            ksf,
            tape,
            clone_params,
        })
        .boxed()
}

fn trivial(c: &Case) -> bool {
    let short_ascii = match &c.pw {
        BSpec::Lit(v) => !v.is_empty() && v.len() <= 32 && v.iter().all(|b| (0x20..0x7f).contains(b)),
        _ => false,
    };
    short_ascii
        && c.id_u == IdSpec::Absent
        && c.id_s == IdSpec::Absent
        && c.ctx.is_none()
        && matches!(c.ksf, None | Some(KsfSpec::Identity))
        && !c.tape.structured()
}

pub fn check(s: &'static dyn Proto, c: &Case, st: &mut Stats, _k: &KnownFindings) -> CaseResult {
    ksf::set_default_spec(KsfSpec::Identity);
    ksf::journal_reset();
    set_clone_params(c.clone_params);
    let r = check_inner(s, c, st);
    set_clone_params(false);
    r
}

fn check_inner(s: &'static dyn Proto, c: &Case, st: &mut Stats) -> CaseResult {
    let pw = c.pw.bytes();
    let cred = c.cred.bytes();
    let ctx = flow::opt(&c.ctx);
    let setup = s.setup_new(&mut c.tape.sub(0).rng());
    let server_pk = s.setup_public_key(&setup);

    // the client's default identity is its static public key, which is a
    // function of (password-derived key, envelope nonce): learn it from a dry
    // run on the same tapes when the explicit spelling of the default is asked for
    let client_pk = if c.id_u == IdSpec::DefaultSpelled {
        let dry = flow::register(
            s,
            &setup,
            &pw,
            &cred,
            Ids::default(),
            c.ksf.as_ref(),
            &c.tape.sub(1),
            &c.tape.sub(2),
        )
        .map_err(|e| Fail::new(format!("registration (dry run, default ids) failed: {e:?}")))?;
        let up = s.ser(Codec::Native, &dry.upload);
        crate::fieldmap::slice(&s.meta(), Ty::RegUpload, "client_s_pk", &up).to_vec()
    } else {
        Vec::new()
    };
    let id_u = c.id_u.resolve(&client_pk);
    let id_s = c.id_s.resolve(&server_pk);
    let ids = Ids {
        client: id_u.as_deref(),
        server: id_s.as_deref(),
    };

    let reg = flow::register(s, &setup, &pw, &cred, ids, c.ksf.as_ref(), &c.tape.sub(1), &c.tape.sub(2))
        .map_err(|e| Fail::new(format!("registration step failed: {e:?}")))?;
    ensure_eq!(reg.server_s_pk, server_pk, "server_s_pk reported at registration != setup public key");
    if c.id_u == IdSpec::DefaultSpelled {
        let up = s.ser(Codec::Native, &reg.upload);
        ensure_eq!(
            crate::fieldmap::slice(&s.meta(), Ty::RegUpload, "client_s_pk", &up).to_vec(),
            client_pk,
            "client static key differs between two registrations on equal tapes"
        );
    }

    let lo = flow::login(
        s,
        &setup,
        Some(&reg.record),
        &pw,
        &cred,
        ctx.as_deref(),
        ids,
        ctx.as_deref(),
        ids,
        c.ksf.as_ref(),
        &c.tape.sub(3),
        &c.tape.sub(4),
    )
    .map_err(|e| Fail::new(format!("login start step failed: {e:?}")))?;
    let cl = lo
        .client
        .as_ref()
        .map_err(|e| Fail::new(format!("honest client login finish failed: {e:?}")))?;
    let sk_server = lo
        .server
        .as_ref()
        .expect("server result present when client ok")
        .as_ref()
        .map_err(|e| Fail::new(format!("honest server login finish failed: {e:?}")))?;
    ensure_eq!(&cl.session_key, sk_server, "client and server session keys differ");
    ensure_eq!(cl.export_key, reg.export_key, "export key at login != export key at registration");
    ensure_eq!(cl.server_s_pk, server_pk, "server_s_pk at login != setup public key");
    ensure_eq!(cl.session_key.len(), s.meta().nh, "session key length");

    st.eval(1);
    st.label(gen::len_class(pw.len()).replace("len", "pw"));
    st.label(format!("id_u:{}", c.id_u.class()));
    st.label(format!("id_s:{}", c.id_s.class()));
    st.label(if c.ctx.is_some() { "ctx=some" } else { "ctx=none" });
    st.label(match &c.ksf {
        None => "ksf=absent".to_string(),
        Some(KsfSpec::Identity) => "ksf=identity".into(),
        Some(KsfSpec::H(_)) => "ksf=H_i".into(),
        Some(KsfSpec::Argon2Default) => "ksf=argon2-default".into(),
        Some(_) => "ksf=argon2-params".into(),
    });
    if c.tape.structured() {
        st.label("tape=structured-prefix");
    }
    if c.clone_params {
        st.label("parameter-structs=cloned");
    }
    if cred.len() > 65535 {
        st.label("cred>65535");
    }
    if !trivial(c) {
        st.nontrivial(&(s.meta().name, c));
    }
    st.sample(|| {
        json!({"suite": s.meta().name, "pw": c.pw.describe(), "cred": c.cred.describe(),
               "id_u": format!("{:?}", c.id_u.class()), "id_s": format!("{:?}", c.id_s.class()),
               "ctx": c.ctx.as_ref().map(|b| b.describe()), "ksf": format!("{:?}", c.ksf),
               "tape_prefix_calls": c.tape.prefix_calls})
    });
    Ok(())
}

pub const BUDGET: Budget = Budget {
    quick: (400, 160, 48),
    thorough: (6000, 2000, 600),
    shrink: 200,
};

pub fn run(cfg: &RunCfg) -> (Outcome, EvidenceExtra) {
    let mut suites = crate::suites::suites20();
    suites.extend(crate::suites::real_ksf_suites());
    let out = run_property(cfg, "C01", suites, BUDGET, strategy, check);
    let ev = EvidenceExtra {
        rule: "cases = generated (password, credential id, client/server identity spec, context, KSF, tape) per suite (20 OPRFxKE suites with DynKsf + 4 suites with the crate's real Identity/Argon2 KSF types); each case is one full registration + login on the production build with every step, key equality, export key and server public key checked. non-trivial = NOT (short printable-ASCII password AND absent identities AND absent context AND absent/Identity KSF AND plain tape); distinct by hash of (suite, case)".into(),
        assumptions: vec![
            "collisions of independent 32-byte values do not occur".into(),
            "the explicit spelling of the client's default identity is learnt from a dry-run registration on the same tapes".into(),
        ],
        exhaustive: None,
        extra: Default::default(),
    };
    (out, ev)
}

//! C19 — key-exchange group operations obey their laws.

use proptest::prelude::*;
use rand::RngCore;
use serde::{Deserialize, Serialize};
use serde_json::json;

use crate::gen::{self, Tape};
use crate::known::KnownFindings;
use crate::proto::*;
use crate::refmodel as rm;
use crate::runner::*;
use crate::{ensure, ensure_eq};

#[derive(Clone, Debug, Serialize, Deserialize, Hash, PartialEq, Eq)]
pub enum KeySpec {
    /// drawn from the case tape (index = sub-tape)
    Random,
    /// derived from a random seed with derive_auth_keypair
    Derived,
    /// scalar 1 (NIST, ristretto255) / clamped minimum 2^254 (Curve25519)
    Min,
    /// order-1 (NIST, ristretto255) / clamped maximum (Curve25519)
    Max,
}

#[derive(Clone, Debug, Serialize, Deserialize, Hash, PartialEq, Eq)]
pub enum SeedSpec {
    Random,
    Zero,
    Ones,
}

#[derive(Clone, Debug, Serialize, Deserialize, Hash)]
pub struct Case {
    pub a: KeySpec,
    pub b: KeySpec,
    pub seed: SeedSpec,
    pub tape: Tape,
}

pub fn strategy(_s: &'static dyn Proto) -> BoxedStrategy<Case> {
    let key = || {
        prop_oneof![
            5 => Just(KeySpec::Random),
            2 => Just(KeySpec::Derived),
            1 => Just(KeySpec::Min),
            1 => Just(KeySpec::Max),
        ]
    };
    (
        key(),
        key(),
        prop_oneof![6 => Just(SeedSpec::Random), 1 => Just(SeedSpec::Zero), 1 => Just(SeedSpec::Ones)],
        gen::tape(),
    )
        .prop_map(|(a, b, seed, tape)| Case { a, b, seed, tape })
        .boxed()
}

fn extreme(m: &Meta, max: bool) -> Vec<u8> {
    match rm::grp_of_ke(m.ke) {
        None => {
            if max {
                let mut v = vec![0xffu8; 32];
                v[0] = 0xf8;
                v[31] = 0x7f;
                v
            } else {
                let mut v = vec![0u8; 32];
                v[31] = 0x40;
                v
            }
        }
        Some(g) => {
            let le = g.little_endian();
            if max {
                // order - 1: the order is odd, so only the lowest byte changes
                let mut v = g.order_bytes();
                if le {
                    v[0] -= 1;
                } else {
                    let n = v.len();
                    v[n - 1] -= 1;
                }
                v
            } else {
                let mut v = vec![0u8; g.scalar_len()];
                if le {
                    v[0] = 1;
                } else {
                    let n = v.len();
                    v[n - 1] = 1;
                }
                v
            }
        }
    }
}

fn make_key(s: &'static dyn Proto, m: &Meta, spec: &KeySpec, tape: &Tape, idx: u64) -> Result<Vec<u8>, Fail> {
    match spec {
        KeySpec::Random => Ok(s.kg_random_sk(&mut tape.sub(idx).rng())),
        KeySpec::Derived => {
            let mut seed = vec![0u8; m.nsk];
            tape.sub(idx).rng().fill_bytes(&mut seed);
            s.kg_derive_auth_keypair(&seed)
                .map_err(|e| Fail::new(format!("derive_auth_keypair(random seed) failed: {e:?}")))
        }
        KeySpec::Min => Ok(extreme(m, false)),
        KeySpec::Max => Ok(extreme(m, true)),
    }
}

pub fn check(s: &'static dyn Proto, c: &Case, st: &mut Stats, _k: &KnownFindings) -> CaseResult {
    let m = s.meta();
    let a = make_key(s, &m, &c.a, &c.tape, 1)?;
    let b = make_key(s, &m, &c.b, &c.tape, 2)?;
    for (name, k) in [("a", &a), ("b", &b)] {
        // private-key encodings round-trip exactly through the public decoders
        let d = s
            .sk_deserialize(k)
            .map_err(|e| Fail::new(format!("valid private key {name} ({:?}) rejected by PrivateKey::deserialize: {e:?}", hex::encode(k))))?;
        ensure_eq!(&d, k, "PrivateKey deserialize/serialize round trip ({name})");
        ensure_eq!(s.kg_sk_roundtrip(k).ok().as_ref(), Some(k), "KeGroup sk round trip ({name})");
        ensure_eq!(s.kg_is_zero_scalar(k).ok(), Some(false), "is_zero_scalar on a valid key");
        // public key derived consistently
        let pk_ref = rm::ke_public_key(m.ke, k).ok_or_else(|| Fail::new("reference cannot compute the public key"))?;
        let pk1 = s.sk_public_key(k).map_err(|e| Fail::new(format!("PrivateKey::public_key failed: {e:?}")))?;
        let pk2 = s.kg_public_key(k).map_err(|e| Fail::new(format!("KeGroup::public_key failed: {e:?}")))?;
        let (pk3, sk3) = s
            .keypair_from_private_key_slice(k)
            .map_err(|e| Fail::new(format!("KeyPair::from_private_key_slice failed: {e:?}")))?;
        let (pk4, sk4) = s
            .keypair_from_private_key(k)
            .map_err(|e| Fail::new(format!("KeyPair::from_private_key failed: {e:?}")))?;
        ensure_eq!(pk1, pk_ref, "PrivateKey::public_key != sk*G computed with the curve crate ({name})");
        ensure_eq!(pk2, pk_ref, "KeGroup::public_key != reference ({name})");
        ensure_eq!(pk3, pk_ref, "KeyPair::from_private_key_slice public key ({name})");
        ensure_eq!(pk4, pk_ref, "KeyPair::from_private_key public key ({name})");
        ensure_eq!(&sk3, k, "KeyPair::from_private_key_slice private key ({name})");
        ensure_eq!(&sk4, k, "KeyPair::from_private_key private key ({name})");
        // public-key encodings round-trip exactly
        ensure_eq!(s.pk_deserialize(&pk_ref).ok().as_ref(), Some(&pk_ref), "PublicKey round trip ({name})");
        ensure_eq!(s.kg_pk_roundtrip(&pk_ref).ok().as_ref(), Some(&pk_ref), "KeGroup pk round trip ({name})");
        // serde round trips
        for codec in [Codec::Bincode, Codec::Json] {
            let o = s.de(Codec::Native, Ty::PrivateKey, k).map_err(|e| Fail::new(format!("{e:?}")))?;
            let enc = s.ser(codec, &o);
            let back = s.de(codec, Ty::PrivateKey, &enc).map_err(|e| Fail::new(format!("serde private key round trip: {e:?}")))?;
            ensure_eq!(&s.ser(Codec::Native, &back), k, "private key through {codec:?}");
            let o = s.de(Codec::Native, Ty::PublicKey, &pk_ref).map_err(|e| Fail::new(format!("{e:?}")))?;
            let enc = s.ser(codec, &o);
            let back = s.de(codec, Ty::PublicKey, &enc).map_err(|e| Fail::new(format!("serde public key round trip: {e:?}")))?;
            ensure_eq!(s.ser(Codec::Native, &back), pk_ref, "public key through {codec:?}");
            let o = s.de(Codec::Native, Ty::KeyPair, k).map_err(|e| Fail::new(format!("{e:?}")))?;
            let enc = s.ser(codec, &o);
            let back = s.de(codec, Ty::KeyPair, &enc).map_err(|e| Fail::new(format!("serde key pair round trip: {e:?}")))?;
            ensure_eq!(&s.ser(Codec::Native, &back), k, "key pair through {codec:?}");
        }
        st.eval(12);
    }
    // Diffie-Hellman symmetry and agreement with the curve crate
    let pk_a = rm::ke_public_key(m.ke, &a).unwrap();
    let pk_b = rm::ke_public_key(m.ke, &b).unwrap();
    let ab = s.sk_diffie_hellman(&a, &pk_b).map_err(|e| Fail::new(format!("dh(a, pk_b) failed: {e:?}")))?;
    let ba = s.sk_diffie_hellman(&b, &pk_a).map_err(|e| Fail::new(format!("dh(b, pk_a) failed: {e:?}")))?;
    let ab2 = s.kg_diffie_hellman(&a, &pk_b).map_err(|e| Fail::new(format!("KeGroup::dh failed: {e:?}")))?;
    let ba2 = s.kg_diffie_hellman(&b, &pk_a).map_err(|e| Fail::new(format!("KeGroup::dh failed: {e:?}")))?;
    let dh_ref = rm::ke_dh(m.ke, &a, &pk_b).ok_or_else(|| Fail::new("reference dh failed"))?;
    ensure_eq!(ab, ba, "Diffie-Hellman is not symmetric");
    ensure_eq!(ab, dh_ref, "Diffie-Hellman != scalar multiplication by the curve crate");
    ensure_eq!(ab2, dh_ref, "KeGroup::diffie_hellman != reference");
    ensure_eq!(ba2, dh_ref, "KeGroup::diffie_hellman (other side) != reference");
    ensure_eq!(ab.len(), m.npk, "shared secret length");
    st.eval(4);

    // Diffie-Hellman with an arbitrary accepted peer key (not necessarily sk*G): for Curve25519
    // almost all 32-byte strings are valid public keys, most of them outside the prime-order
    // subgroup (torsion component or twist point), where only the clamped X25519 ladder is right
    {
        let mut peer = vec![0u8; m.npk];
        c.tape.sub(5).rng().fill_bytes(&mut peer);
        let peer = match rm::grp_of_ke(m.ke) {
            None => peer,
            Some(g) => {
                // a fresh valid point: (random scalar) * G
                let mut sc = vec![0u8; g.scalar_len()];
                let n = sc.len();
                if g.little_endian() {
                    sc[..16].copy_from_slice(&peer[..16]);
                    sc[0] |= 1;
                } else {
                    sc[n - 16..].copy_from_slice(&peer[..16]);
                    sc[n - 1] |= 1;
                }
                g.base_mul(&sc).ok_or_else(|| Fail::new("reference base_mul failed"))?
            }
        };
        if let Ok(canon) = s.pk_deserialize(&peer) {
            ensure_eq!(canon, peer, "PublicKey round trip of an arbitrary accepted key");
            let want = rm::ke_dh(m.ke, &a, &peer).ok_or_else(|| Fail::new("reference dh failed"))?;
            let got = s.sk_diffie_hellman(&a, &peer).map_err(|e| Fail::new(format!("dh(a, arbitrary accepted key) failed: {e:?}")))?;
            ensure_eq!(got, want, "Diffie-Hellman with an arbitrary accepted public key != the curve crate's (clamped X25519 / scalar multiplication)");
            let got2 = s.kg_diffie_hellman(&a, &peer).map_err(|e| Fail::new(format!("KeGroup::dh failed: {e:?}")))?;
            ensure_eq!(got2, want, "KeGroup::diffie_hellman with an arbitrary accepted public key");
            st.eval(2);
            st.label("dh:arbitrary-accepted-peer-key");
        }
        if m.ke == KeKind::Curve25519 {
            // RFC 7748 section 5.2, fed through the crate's own Diffie-Hellman (scalars are clamped by X25519)
            for (k, u, out) in [
                ("a546e36bf0527c9d3b16154b82465edd62144c0ac1fc5a18506a2244ba449ac4", "e6db6867583030db3594c1a424b15f7c726624ec26b3353b10a903a6d0ab1c4c", "c3da55379de9c6908e94ea4df28d084f32eccf03491c71f754b4075577a28552"),
                ("4b66e9d4d1b4673c5ad22691957d6af5c11b6421e0ea01d42ca4169e7918ba0d", "e5210f12786811d3f4b7959d0538ae2c31dbe7106fc03c3efc4cd549c715a493", "95cbde9476e8907d7aade45cb4b873f88b595a68799fa152e6f8f7647aac7957"),
            ] {
                let kk = rm::clamp(hex::decode(k).unwrap().try_into().unwrap()).to_vec();
                let uu = hex::decode(u).unwrap();
                if s.pk_deserialize(&uu).is_ok() {
                    let got = s.sk_diffie_hellman(&kk, &uu).map_err(|e| Fail::new(format!("RFC 7748 vector: dh failed: {e:?}")))?;
                    ensure_eq!(hex::encode(got), out.to_string(), "RFC 7748 section 5.2 vector through PrivateKey::diffie_hellman");
                    st.eval(1);
                }
            }
        }
    }

    // encodings round-trip exactly also at the edge of the range: whatever the private-key decoder
    // accepts must re-encode to the very same bytes (so n, n+1, all-ones are either refused or,
    // for Curve25519, kept verbatim - never silently reduced)
    {
        let mut edge: Vec<Vec<u8>> = vec![vec![0xffu8; m.nsk]];
        if let Some(g) = rm::grp_of_ke(m.ke) {
            let n = g.order_bytes();
            let le = g.little_endian();
            edge.push(n.clone());
            let mut one = vec![0u8; n.len()];
            if le {
                one[0] = 1;
            } else {
                let l = one.len();
                one[l - 1] = 1;
            }
            if let Some(n1) = crate::decoders::add_bytes(&n, &one, le) {
                edge.push(n1);
            }
            if let Some(v) = crate::decoders::add_bytes(&a, &n, le) {
                edge.push(v);
            }
        }
        for x in edge {
            for (api, r) in [
                ("PrivateKey::deserialize", s.sk_deserialize(&x).ok()),
                ("KeGroup::deserialize_sk", s.kg_sk_roundtrip(&x).ok()),
                ("KeyPair::from_private_key_slice", s.keypair_from_private_key_slice(&x).ok().map(|(_, sk)| sk)),
            ] {
                if let Some(y) = r {
                    ensure_eq!(y, x, "{api} accepted an out-of-range private key and changed it");
                }
                st.eval(1);
            }
        }
    }

    // seeded derivation
    let seed = match c.seed {
        SeedSpec::Random => {
            let mut v = vec![0u8; m.nsk];
            c.tape.sub(3).rng().fill_bytes(&mut v);
            v
        }
        SeedSpec::Zero => vec![0u8; m.nsk],
        SeedSpec::Ones => vec![0xffu8; m.nsk],
    };
    let d = s
        .kg_derive_auth_keypair(&seed)
        .map_err(|e| Fail::new(format!("derive_auth_keypair({:?}) failed: {e:?}", c.seed)))?;
    ensure!(d.iter().any(|x| *x != 0), "derive_auth_keypair returned the zero key");
    ensure_eq!(s.sk_deserialize(&d).ok().as_ref(), Some(&d), "derived key is not accepted by deserialize_sk");
    let (d_ref, dpk_ref) = rm::derive_dh_key_pair(m.ke, m.oprf, &seed).ok_or_else(|| Fail::new("reference derivation failed"))?;
    ensure_eq!(d, d_ref, "derive_auth_keypair != RFC DeriveDiffieHellmanKeyPair (clamp for Curve25519)");
    ensure_eq!(s.sk_public_key(&d).ok(), Some(dpk_ref), "public key of the derived key");
    st.eval(3);

    // ServerSetup::new -> KeyPair::generate_random satisfies the same relations
    let setup = s.setup_new(&mut c.tape.sub(4).rng());
    let sk = s.setup_private_key(&setup);
    let pk = s.setup_public_key(&setup);
    ensure_eq!(rm::ke_public_key(m.ke, &sk), Some(pk.clone()), "generate_random: pk != sk*G");
    ensure_eq!(s.sk_deserialize(&sk).ok().as_ref(), Some(&sk), "generate_random: sk round trip");
    ensure_eq!(s.pk_deserialize(&pk).ok().as_ref(), Some(&pk), "generate_random: pk round trip");
    st.eval(3);

    let extreme_case = !matches!(c.a, KeySpec::Random) || !matches!(c.b, KeySpec::Random) || c.seed != SeedSpec::Random || c.tape.structured();
    if extreme_case || m.ke == KeKind::Curve25519 {
        st.nontrivial(&(m.name, c));
    }
    st.label(format!("a:{:?}", c.a));
    st.label(format!("seed:{:?}", c.seed));
    st.label(format!("group:{:?}", m.ke));
    st.sample(|| json!({"suite": m.name, "a": hex::encode(&a), "b": hex::encode(&b), "seed": format!("{:?}", c.seed), "shared": hex::encode(&ab)}));
    Ok(())
}

pub const BUDGET: Budget = Budget {
    quick: (1000, 500, 200),
    thorough: (20000, 10000, 4000),
    shrink: 200,
};

pub fn run(cfg: &RunCfg) -> (Outcome, EvidenceExtra) {
    let out = run_property(cfg, "C19", crate::suites::suites20(), BUDGET, strategy, check);
    let ev = EvidenceExtra {
        rule: "case = two private keys (random_sk from the tape, derive_auth_keypair of a random seed, scalar 1 / order-1, clamped minimum / maximum for Curve25519) and a seed (random, all-zero, all-ones) per (OPRF suite, KE group) combination. Oracle: DH symmetric and equal to the curve crate's scalar multiplication, also for an arbitrary accepted peer key (for Curve25519: random 32-byte strings, i.e. mostly points with a torsion component or on the twist, plus the RFC 7748 5.2 vectors); public_key / KeyPair constructors agree with sk*G; private/public key encodings round-trip exactly (native, bincode, JSON); derive_auth_keypair is non-zero, accepted by deserialize_sk and equals the reference DeriveDiffieHellmanKeyPair (RFC 7748 clamp for Curve25519); ServerSetup::new key pairs satisfy the same relations. evaluation = one relation checked. non-trivial = extreme key or seed, structured tape, or any Curve25519 case; distinct by hash of (suite, case)".into(),
        assumptions: vec!["the curve crates' scalar multiplication is the arithmetic reference (X25519 pinned by RFC 7748 vectors)".into()],
        exhaustive: None,
        extra: Default::default(),
    };
    (out, ev)
}

//! Shared proptest strategies.  All randomness of a check comes from here (and
//! from `TapeSpec` seeds generated here), so shrinking and replay work.

use proptest::prelude::*;
use proptest::strategy::Union;
use serde::{Deserialize, Serialize};

use crate::ksf::KsfSpec;
use crate::tape::TapeSpec;

pub mod hexser {
    use serde::{Deserialize, Deserializer, Serializer};
    pub fn serialize<S: Serializer>(v: &Vec<u8>, s: S) -> Result<S::Ok, S::Error> {
        s.serialize_str(&hex::encode(v))
    }
    pub fn deserialize<'de, D: Deserializer<'de>>(d: D) -> Result<Vec<u8>, D::Error> {
        let s = String::deserialize(d)?;
        hex::decode(s).map_err(serde::de::Error::custom)
    }
}

/// A byte-string parameter.  Large values are described by (len, seed) so that
/// shrinking works on the description and replay files stay small.
#[derive(Clone, Debug, PartialEq, Eq, Hash, Serialize, Deserialize)]
pub enum BSpec {
    Lit(#[serde(with = "hexser")] Vec<u8>),
    Filled { len: usize, seed: u64 },
    /// `Filled{len,seed}` with the last byte xor-ed by 1 (near-miss of a long value)
    FilledLastFlipped { len: usize, seed: u64 },
}

pub fn expand(len: usize, seed: u64) -> Vec<u8> {
    // xorshift64* stream; content only needs to be arbitrary and reproducible
    let mut x = seed ^ 0x9E37_79B9_7F4A_7C15;
    if x == 0 {
        x = 1;
    }
    let mut v = Vec::with_capacity(len);
    while v.len() < len {
        x ^= x >> 12;
        x ^= x << 25;
        x ^= x >> 27;
        let w = x.wrapping_mul(0x2545_F491_4F6C_DD1D);
        for b in w.to_le_bytes() {
            if v.len() < len {
                v.push(b);
            }
        }
    }
    v
}

impl BSpec {
    pub fn bytes(&self) -> Vec<u8> {
        match self {
            BSpec::Lit(v) => v.clone(),
            BSpec::Filled { len, seed } => expand(*len, *seed),
            BSpec::FilledLastFlipped { len, seed } => {
                let mut v = expand(*len, *seed);
                if let Some(l) = v.last_mut() {
                    *l ^= 1;
                }
                v
            }
        }
    }
    pub fn len(&self) -> usize {
        match self {
            BSpec::Lit(v) => v.len(),
            BSpec::Filled { len, .. } | BSpec::FilledLastFlipped { len, .. } => *len,
        }
    }
    pub fn is_empty(&self) -> bool {
        self.len() == 0
    }
    pub fn lit(b: &[u8]) -> Self {
        BSpec::Lit(b.to_vec())
    }
    /// short human-readable description for evidence samples
    pub fn describe(&self) -> serde_json::Value {
        match self {
            BSpec::Lit(v) if v.len() <= 48 => serde_json::json!({"hex": hex::encode(v)}),
            BSpec::Lit(v) => {
                serde_json::json!({"len": v.len(), "hex_prefix": hex::encode(&v[..16])})
            }
            BSpec::Filled { len, seed } => serde_json::json!({"len": len, "fill_seed": seed}),
            BSpec::FilledLastFlipped { len, seed } => {
                serde_json::json!({"len": len, "fill_seed": seed, "last_byte_flipped": true})
            }
        }
    }
}

pub fn len_class(len: usize) -> &'static str {
    match len {
        0 => "len=0",
        1..=64 => "len=1..64",
        65..=254 => "len=65..254",
        255..=257 => "len=255..257",
        258..=65533 => "len=258..65533",
        65534..=65535 => "len=65534..65535",
        _ => "len>65535",
    }
}

const TEXTY: &[&str] = &[
    "password",
    "Password",
    "good password",
    "pass\0word",
    "password ",
    "password\n",
    " password",
    "p\u{e4}ssw\u{f6}rd",
    "correct horse battery staple",
    "\0",
    "a",
];

/// Byte-string parameters within the encodable limit (0..=65535).
pub fn bytes_param() -> BoxedStrategy<BSpec> {
    Union::new_weighted(vec![
        (30, proptest::collection::vec(any::<u8>(), 0..64).prop_map(BSpec::Lit).boxed()),
        (
            14,
            (0..TEXTY.len()).prop_map(|i| BSpec::Lit(TEXTY[i].as_bytes().to_vec())).boxed(),
        ),
        (
            16,
            (prop::sample::select(vec![0usize, 1, 2, 255, 256, 257, 65534, 65535]), any::<u64>())
                .prop_map(|(len, seed)| BSpec::Filled { len, seed })
                .boxed(),
        ),
        (
            8,
            (65usize..4096, any::<u64>()).prop_map(|(len, seed)| BSpec::Filled { len, seed }).boxed(),
        ),
    ])
    .boxed()
}

/// cheap variant: no 64 KiB values (for properties where the long values add
/// nothing but time)
pub fn bytes_small() -> BoxedStrategy<BSpec> {
    Union::new_weighted(vec![
        (30, proptest::collection::vec(any::<u8>(), 0..48).prop_map(BSpec::Lit).boxed()),
        (
            12,
            (0..TEXTY.len()).prop_map(|i| BSpec::Lit(TEXTY[i].as_bytes().to_vec())).boxed(),
        ),
        (
            8,
            (prop::sample::select(vec![0usize, 1, 255, 256, 257]), any::<u64>())
                .prop_map(|(len, seed)| BSpec::Filled { len, seed })
                .boxed(),
        ),
    ])
    .boxed()
}

/// credential identifiers: "any length", including beyond 65535
pub fn cred_id() -> BoxedStrategy<BSpec> {
    Union::new_weighted(vec![
        (30, proptest::collection::vec(any::<u8>(), 0..48).prop_map(BSpec::Lit).boxed()),
        (
            10,
            (prop::sample::select(vec![0usize, 1, 200, 255, 256, 65535, 65536, 70000]), any::<u64>())
                .prop_map(|(len, seed)| BSpec::Filled { len, seed })
                .boxed(),
        ),
        (
            6,
            prop::sample::select(vec!["alice@example.com", "bob", "", "user\0"])
                .prop_map(|s| BSpec::Lit(s.as_bytes().to_vec()))
                .boxed(),
        ),
    ])
    .boxed()
}

/// How a party identity is passed.
#[derive(Clone, Debug, PartialEq, Eq, Hash, Serialize, Deserialize)]
pub enum IdSpec {
    /// `None`: the party's serialized static public key is used
    Absent,
    Explicit(BSpec),
    /// `Some(<that party's serialized public key>)`: explicit spelling of the default
    DefaultSpelled,
}

impl IdSpec {
    pub fn resolve(&self, default_pk: &[u8]) -> Option<Vec<u8>> {
        match self {
            IdSpec::Absent => None,
            IdSpec::Explicit(b) => Some(b.bytes()),
            IdSpec::DefaultSpelled => Some(default_pk.to_vec()),
        }
    }
    pub fn effective(&self, default_pk: &[u8]) -> Vec<u8> {
        self.resolve(default_pk).unwrap_or_else(|| default_pk.to_vec())
    }
    pub fn class(&self) -> &'static str {
        match self {
            IdSpec::Absent => "id=absent",
            IdSpec::Explicit(_) => "id=explicit",
            IdSpec::DefaultSpelled => "id=default-spelled",
        }
    }
}

pub fn id_spec(b: BoxedStrategy<BSpec>) -> BoxedStrategy<IdSpec> {
    Union::new_weighted(vec![
        (4, Just(IdSpec::Absent).boxed()),
        (5, b.prop_map(IdSpec::Explicit).boxed()),
        (1, Just(IdSpec::DefaultSpelled).boxed()),
    ])
    .boxed()
}

pub fn opt_ctx(b: BoxedStrategy<BSpec>) -> BoxedStrategy<Option<BSpec>> {
    Union::new_weighted(vec![(2, Just(None).boxed()), (3, b.prop_map(Some).boxed())]).boxed()
}

#[derive(Clone, Debug, PartialEq, Eq, Hash, Serialize, Deserialize)]
pub struct Tape {
    #[serde(with = "hexser32")]
    pub seed: [u8; 32],
    pub prefix_calls: u8,
    pub prefix_fill: u8,
}

pub mod hexser32 {
    use serde::{Deserialize, Deserializer, Serializer};
    pub fn serialize<S: Serializer>(v: &[u8; 32], s: S) -> Result<S::Ok, S::Error> {
        s.serialize_str(&hex::encode(v))
    }
    pub fn deserialize<'de, D: Deserializer<'de>>(d: D) -> Result<[u8; 32], D::Error> {
        let s = String::deserialize(d)?;
        let mut out = [0u8; 32];
        hex::decode_to_slice(s, &mut out).map_err(serde::de::Error::custom)?;
        Ok(out)
    }
}

impl Tape {
    pub fn spec(&self) -> TapeSpec {
        TapeSpec {
            seed: self.seed,
            splice: None,
            prefix_calls: self.prefix_calls,
            prefix_fill: self.prefix_fill,
        }
    }
    /// independent sub-tape for the `i`-th API call of a case
    pub fn sub(&self, i: u64) -> TapeSpec {
        self.spec().derive(i)
    }
    pub fn structured(&self) -> bool {
        self.prefix_calls > 0
    }
}

/// A random tape: 32-byte seed (not shrunk: a "smaller" seed is just another
/// tape), 25% with a structured constant prefix of 1..=3 calls.
pub fn tape() -> BoxedStrategy<Tape> {
    (
        any::<[u8; 32]>().no_shrink(),
        prop_oneof![
            3 => Just((0u8, 0u8)),
            1 => (1u8..=3, prop::sample::select(vec![0x00u8, 0xFF])),
        ],
    )
        .prop_map(|(seed, (prefix_calls, prefix_fill))| Tape {
            seed,
            prefix_calls,
            prefix_fill,
        })
        .boxed()
}

/// plain tape (no structured prefix)
pub fn tape_plain() -> BoxedStrategy<Tape> {
    any::<[u8; 32]>()
        .no_shrink()
        .prop_map(|seed| Tape {
            seed,
            prefix_calls: 0,
            prefix_fill: 0,
        })
        .boxed()
}

/// KSF selection as passed to the finish steps: `None` = parameter absent.
pub fn ksf_sel(argon_default_weight: u32) -> BoxedStrategy<Option<KsfSpec>> {
    let mut v: Vec<(u32, BoxedStrategy<Option<KsfSpec>>)> = vec![
        (8, Just(None).boxed()),
        (3, Just(Some(KsfSpec::Identity)).boxed()),
        (4, (0u8..4).prop_map(|i| Some(KsfSpec::H(i))).boxed()),
        (
            2,
            (8u32..=64, 1u32..=2, 1u32..=2)
                .prop_map(|(m, t, p)| {
                    Some(KsfSpec::Argon2 {
                        m_kib: m.max(8 * p),
                        t,
                        p,
                    })
                })
                .boxed(),
        ),
    ];
    if argon_default_weight > 0 {
        v.push((argon_default_weight, Just(Some(KsfSpec::Argon2Default)).boxed()));
    }
    Union::new_weighted(v).boxed()
}

/// monotone index mapping (shrinks towards 0)
pub fn pick(idx: u16, len: usize) -> usize {
    ((idx as usize) * len) >> 16
}

//! Object-safe view of one cipher suite's complete public API.

use std::any::Any;

use crate::ksf::KsfSpec;
use crate::tape::TapeRng;

/// The 11 public native decoders (C10) plus three key types that have public
/// decoders / serde impls of their own.
#[derive(Clone, Copy, Debug, PartialEq, Eq, Hash, PartialOrd, Ord)]
pub enum Ty {
    RegReq,
    RegResp,
    RegUpload,
    CredReq,
    CredResp,
    CredFin,
    ServerReg,
    ServerSetup,
    ClientReg,
    ClientLogin,
    ServerLogin,
    PublicKey,
    PrivateKey,
    KeyPair,
}

pub const DECODERS11: [Ty; 11] = [
    Ty::RegReq,
    Ty::RegResp,
    Ty::RegUpload,
    Ty::CredReq,
    Ty::CredResp,
    Ty::CredFin,
    Ty::ServerReg,
    Ty::ServerSetup,
    Ty::ClientReg,
    Ty::ClientLogin,
    Ty::ServerLogin,
];

pub const ALL_TYS: [Ty; 14] = [
    Ty::RegReq,
    Ty::RegResp,
    Ty::RegUpload,
    Ty::CredReq,
    Ty::CredResp,
    Ty::CredFin,
    Ty::ServerReg,
    Ty::ServerSetup,
    Ty::ClientReg,
    Ty::ClientLogin,
    Ty::ServerLogin,
    Ty::PublicKey,
    Ty::PrivateKey,
    Ty::KeyPair,
];

impl Ty {
    pub fn name(self) -> &'static str {
        match self {
            Ty::RegReq => "RegistrationRequest",
            Ty::RegResp => "RegistrationResponse",
            Ty::RegUpload => "RegistrationUpload",
            Ty::CredReq => "CredentialRequest",
            Ty::CredResp => "CredentialResponse",
            Ty::CredFin => "CredentialFinalization",
            Ty::ServerReg => "ServerRegistration",
            Ty::ServerSetup => "ServerSetup",
            Ty::ClientReg => "ClientRegistration",
            Ty::ClientLogin => "ClientLogin",
            Ty::ServerLogin => "ServerLogin",
            Ty::PublicKey => "PublicKey",
            Ty::PrivateKey => "PrivateKey",
            Ty::KeyPair => "KeyPair",
        }
    }
    pub fn from_name(s: &str) -> Option<Ty> {
        ALL_TYS.iter().copied().find(|t| t.name() == s)
    }
    pub fn index(self) -> usize {
        ALL_TYS.iter().position(|t| *t == self).unwrap()
    }
}

#[derive(Clone, Copy, Debug, PartialEq, Eq, Hash)]
pub enum Codec {
    Native,
    Bincode,
    Json,
}
pub const CODECS: [Codec; 3] = [Codec::Native, Codec::Bincode, Codec::Json];

/// A typed value of the real library (e.g. a `ClientLogin<CS>`), held opaquely.
pub struct Obj {
    pub ty: Ty,
    pub suite: &'static str,
    pub inner: Box<dyn Any + Send + Sync>,
}

impl Obj {
    pub fn get<T: 'static>(&self) -> &T {
        self.inner
            .downcast_ref::<T>()
            .unwrap_or_else(|| panic!("HARNESS-BUG: Obj type confusion ({:?} of {})", self.ty, self.suite))
    }
    pub fn take<T: 'static>(self) -> T {
        let ty = self.ty;
        let suite = self.suite;
        *self
            .inner
            .downcast::<T>()
            .unwrap_or_else(|_| panic!("HARNESS-BUG: Obj type confusion ({:?} of {})", ty, suite))
    }
}

#[derive(Clone, Debug, PartialEq, Eq, Hash)]
pub enum IErr {
    Custom(u32),
    InvalidByteSequence,
    Size { name: String, len: usize, actual: usize },
    Point,
    HashToScalar,
    Hkdf,
    Hmac,
    Ksf,
    SealOpenHmac,
    IncompatibleEnvelopeMode,
    Oprf(String),
    OprfInternal(String),
}

#[derive(Clone, Debug, PartialEq, Eq, Hash)]
pub enum PErr {
    Library(IErr),
    InvalidLogin,
    Serialization,
    Reflected,
    IdentityElement,
    /// error from a serde codec (bincode / serde_json), message text
    Serde(String),
}

pub type PResult<T> = Result<T, PErr>;

#[derive(Clone, Copy, Debug, Default)]
pub struct Ids<'a> {
    pub client: Option<&'a [u8]>,
    pub server: Option<&'a [u8]>,
}

#[derive(Clone, Copy, Debug, PartialEq, Eq, Hash, PartialOrd, Ord)]
pub enum OprfKind {
    Ristretto255,
    P256,
    P384,
    P521,
}

#[derive(Clone, Copy, Debug, PartialEq, Eq, Hash, PartialOrd, Ord)]
pub enum KeKind {
    Ristretto255,
    P256,
    P384,
    P521,
    Curve25519,
}

#[derive(Clone, Copy, Debug, PartialEq, Eq, Hash)]
pub enum KsfKind {
    Dyn,
    RealIdentity,
    RealArgon2,
    /// a zero-sized non-identity KSF type defined by the harness
    Zst,
}

/// cost class of a full register+login flow
#[derive(Clone, Copy, Debug, PartialEq, Eq, Hash, PartialOrd, Ord)]
pub enum Cost {
    Fast,
    Medium,
    Slow,
}

#[derive(Clone, Copy, Debug)]
pub struct Meta {
    pub name: &'static str,
    pub oprf: OprfKind,
    pub ke: KeKind,
    pub ksf: KsfKind,
    /// OPRF element length
    pub noe: usize,
    /// OPRF scalar length
    pub nok: usize,
    /// KE public key length
    pub npk: usize,
    /// KE private key length
    pub nsk: usize,
    /// hash output length
    pub nh: usize,
    /// nonce length
    pub nn: usize,
}

impl Meta {
    pub fn cost(&self) -> Cost {
        let o = match self.oprf {
            OprfKind::Ristretto255 => 0,
            OprfKind::P256 => 1,
            _ => 2,
        };
        let k = match self.ke {
            KeKind::Ristretto255 | KeKind::Curve25519 => 0,
            KeKind::P256 => 1,
            _ => 2,
        };
        match o.max(k) {
            0 => Cost::Fast,
            1 => Cost::Medium,
            _ => Cost::Slow,
        }
    }
    pub fn len_of(&self, ty: Ty) -> usize {
        crate::fieldmap::fields(self, ty).iter().map(|f| f.len).sum()
    }
}

pub struct RegFinish {
    pub upload: Obj,
    pub export_key: Vec<u8>,
    pub server_s_pk: Vec<u8>,
}

pub struct LoginFinish {
    pub fin: Obj,
    pub session_key: Vec<u8>,
    pub export_key: Vec<u8>,
    pub server_s_pk: Vec<u8>,
}

/// Byte- and handle-level access to every public operation of one suite.
///
/// Handles (`Obj`) hold the real typed values, so consecutive protocol steps
/// do not pass through any (de)serialization unless a property asks for it.
pub trait Proto: Send + Sync {
    fn meta(&self) -> Meta;

    // ---- (de)serialization of all 11(+3) types through the three codecs
    fn ser(&self, codec: Codec, o: &Obj) -> Vec<u8>;
    fn de(&self, codec: Codec, ty: Ty, bytes: &[u8]) -> PResult<Obj>;
    fn clone_obj(&self, o: &Obj) -> Obj;

    // ---- setup
    fn setup_new(&self, rng: &mut TapeRng) -> Obj;
    /// `ServerSetup::new_with_key(rng, KeyPair::from_private_key_slice(sk))`
    fn setup_new_with_key(&self, rng: &mut TapeRng, sk: &[u8]) -> PResult<Obj>;
    fn setup_public_key(&self, setup: &Obj) -> Vec<u8>;
    fn setup_private_key(&self, setup: &Obj) -> Vec<u8>;

    // ---- registration
    fn client_reg_start(&self, rng: &mut TapeRng, pw: &[u8]) -> PResult<(Obj, Obj)>;
    fn server_reg_start(&self, setup: &Obj, req: &Obj, cred_id: &[u8]) -> PResult<Obj>;
    fn client_reg_finish(
        &self,
        state: Obj,
        rng: &mut TapeRng,
        pw: &[u8],
        resp: &Obj,
        ids: Ids,
        ksf: Option<&KsfSpec>,
    ) -> PResult<RegFinish>;
    fn server_reg_finish(&self, upload: &Obj) -> Obj;

    // ---- login
    fn client_login_start(&self, rng: &mut TapeRng, pw: &[u8]) -> PResult<(Obj, Obj)>;
    #[allow(clippy::too_many_arguments)]
    fn server_login_start(
        &self,
        rng: &mut TapeRng,
        setup: &Obj,
        record: Option<&Obj>,
        req: &Obj,
        cred_id: &[u8],
        ctx: Option<&[u8]>,
        ids: Ids,
    ) -> PResult<(Obj, Obj)>;
    fn client_login_finish(
        &self,
        state: Obj,
        pw: &[u8],
        resp: &Obj,
        ctx: Option<&[u8]>,
        ids: Ids,
        ksf: Option<&KsfSpec>,
    ) -> PResult<LoginFinish>;
    fn server_login_finish(&self, state: Obj, fin: &Obj) -> PResult<Vec<u8>>;

    // ---- external ("remote") server key: ServerSetup<CS, RemoteKey<KG>>
    fn remote_setup_new_with_key(&self, rng: &mut TapeRng, sk: &[u8]) -> PResult<Box<dyn Any + Send + Sync>>;
    fn remote_setup_serialize(&self, setup: &(dyn Any + Send + Sync)) -> Vec<u8>;
    fn remote_setup_deserialize(&self, bytes: &[u8]) -> PResult<Box<dyn Any + Send + Sync>>;
    fn remote_server_reg_start(&self, setup: &(dyn Any + Send + Sync), req: &Obj, cred_id: &[u8]) -> PResult<Obj>;
    #[allow(clippy::too_many_arguments)]
    fn remote_server_login_start(
        &self,
        rng: &mut TapeRng,
        setup: &(dyn Any + Send + Sync),
        record: Option<&Obj>,
        req: &Obj,
        cred_id: &[u8],
        ctx: Option<&[u8]>,
        ids: Ids,
    ) -> PResult<(Obj, Obj)>;

    // ---- key-exchange group and key-pair API
    fn pk_deserialize(&self, bytes: &[u8]) -> Result<Vec<u8>, IErr>;
    fn sk_deserialize(&self, bytes: &[u8]) -> Result<Vec<u8>, IErr>;
    /// `KeGroup::deserialize_pk` / `serialize_pk` directly on the trait
    fn kg_pk_roundtrip(&self, bytes: &[u8]) -> Result<Vec<u8>, IErr>;
    fn kg_sk_roundtrip(&self, bytes: &[u8]) -> Result<Vec<u8>, IErr>;
    /// `KeyPair::from_private_key_slice` -> (pk, sk) bytes
    fn keypair_from_private_key_slice(&self, sk: &[u8]) -> PResult<(Vec<u8>, Vec<u8>)>;
    /// `KeyPair::from_private_key(PrivateKey::deserialize)` -> (pk, sk) bytes
    fn keypair_from_private_key(&self, sk: &[u8]) -> PResult<(Vec<u8>, Vec<u8>)>;
    /// `PrivateKey::public_key`
    fn sk_public_key(&self, sk: &[u8]) -> Result<Vec<u8>, IErr>;
    /// `KeGroup::public_key`
    fn kg_public_key(&self, sk: &[u8]) -> Result<Vec<u8>, IErr>;
    /// `PrivateKey::diffie_hellman(PublicKey)`
    fn sk_diffie_hellman(&self, sk: &[u8], pk: &[u8]) -> Result<Vec<u8>, IErr>;
    /// `KeGroup::diffie_hellman`
    fn kg_diffie_hellman(&self, sk: &[u8], pk: &[u8]) -> Result<Vec<u8>, IErr>;
    /// `KeGroup::derive_auth_keypair::<OprfCs>(seed)` (seed must be Nsk bytes)
    fn kg_derive_auth_keypair(&self, seed: &[u8]) -> Result<Vec<u8>, IErr>;
    /// `KeGroup::random_sk`
    fn kg_random_sk(&self, rng: &mut TapeRng) -> Vec<u8>;
    /// `KeGroup::is_zero_scalar(deserialize_sk(bytes))`
    fn kg_is_zero_scalar(&self, sk: &[u8]) -> Result<bool, IErr>;
}

thread_local! {
    /// when set, the suite adapters pass `.clone()`s of the parameter structs
    /// (ClientRegistrationFinishParameters, ClientLoginFinishParameters,
    /// ServerLoginStartParameters) instead of the freshly built values, so that the
    /// structs' Clone impls are part of what is exercised
    static CLONE_PARAMS: std::cell::Cell<bool> = const { std::cell::Cell::new(false) };
}
pub fn set_clone_params(on: bool) {
    CLONE_PARAMS.with(|c| c.set(on));
}
pub fn clone_params() -> bool {
    CLONE_PARAMS.with(|c| c.get())
}

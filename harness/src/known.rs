//! `known_findings.json`: genuine defects recorded (open) or repaired (fixed).
//! Open entries are excluded by construction (counted, search continues) and
//! reported as `KNOWN-FINDING:` lines; fixed entries suppress nothing.  The file
//! is never written at run time.

use std::path::Path;

use serde::Deserialize;

#[derive(Clone, Debug, Deserialize)]
pub struct Finding {
    pub property: String,
    pub status: String,
    pub signature: String,
    #[serde(default)]
    pub commit: Option<String>,
    pub description: String,
}

#[derive(Clone, Debug, Default, Deserialize)]
pub struct KnownFindings {
    #[serde(default)]
    pub findings: Vec<Finding>,
}

impl KnownFindings {
    pub fn load(verif_dir: &Path) -> Self {
        let p = verif_dir.join("known_findings.json");
        match std::fs::read(&p) {
            Ok(b) => serde_json::from_slice(&b).unwrap_or_else(|e| {
                println!("INCONCLUSIVE known_findings.json does not parse: {e}");
                std::process::exit(2);
            }),
            Err(_) => KnownFindings::default(),
        }
    }
    pub fn is_open(&self, signature: &str) -> bool {
        !signature.is_empty()
            && self
                .findings
                .iter()
                .any(|f| f.status == "open" && f.signature == signature)
    }
    pub fn open_for(&self, prop: &str) -> Vec<&Finding> {
        self.findings
            .iter()
            .filter(|f| f.status == "open" && f.property == prop)
            .collect()
    }
}

//! Protocol-flow helpers shared by the properties.

use crate::gen::{BSpec, IdSpec};
use crate::ksf::KsfSpec;
use crate::proto::*;
use crate::tape::TapeSpec;

/// Identity / context / KSF parameters as a caller would pass them.
#[derive(Clone, Debug, Default)]
pub struct Params {
    pub id_u: Option<Vec<u8>>,
    pub id_s: Option<Vec<u8>>,
    pub ctx: Option<Vec<u8>>,
    pub ksf: Option<KsfSpec>,
}

impl Params {
    pub fn ids(&self) -> Ids<'_> {
        Ids {
            client: self.id_u.as_deref(),
            server: self.id_s.as_deref(),
        }
    }
}

pub struct RegOut {
    pub req: Obj,
    pub client_state_bytes: Vec<u8>,
    pub resp: Obj,
    pub upload: Obj,
    pub record: Obj,
    pub export_key: Vec<u8>,
    pub server_s_pk: Vec<u8>,
}

/// honest registration; `t_start` / `t_finish` are the client's tapes
pub fn register(
    s: &dyn Proto,
    setup: &Obj,
    pw: &[u8],
    cred: &[u8],
    ids: Ids,
    ksf: Option<&KsfSpec>,
    t_start: &TapeSpec,
    t_finish: &TapeSpec,
) -> PResult<RegOut> {
    let (req, st) = s.client_reg_start(&mut t_start.rng(), pw)?;
    let client_state_bytes = s.ser(Codec::Native, &st);
    let resp = s.server_reg_start(setup, &req, cred)?;
    let fin = s.client_reg_finish(st, &mut t_finish.rng(), pw, &resp, ids, ksf)?;
    let record = s.server_reg_finish(&fin.upload);
    Ok(RegOut {
        req,
        client_state_bytes,
        resp,
        upload: fin.upload,
        record,
        export_key: fin.export_key,
        server_s_pk: fin.server_s_pk,
    })
}

pub struct LoginOut {
    pub req: Obj,
    pub resp: Obj,
    pub server_state: Obj,
    pub client: PResult<LoginFinish>,
    /// result of the server finish when the client produced a finalization
    pub server: Option<PResult<Vec<u8>>>,
}

/// honest in-order login attempt; server-side failures of `start` are returned
/// as `Err`, the client's verdict is in `.client`
#[allow(clippy::too_many_arguments)]
pub fn login(
    s: &dyn Proto,
    setup: &Obj,
    record: Option<&Obj>,
    pw: &[u8],
    cred: &[u8],
    server_ctx: Option<&[u8]>,
    server_ids: Ids,
    client_ctx: Option<&[u8]>,
    client_ids: Ids,
    ksf: Option<&KsfSpec>,
    t_client: &TapeSpec,
    t_server: &TapeSpec,
) -> PResult<LoginOut> {
    let (req, cst) = s.client_login_start(&mut t_client.rng(), pw)?;
    let (resp, sst) =
        s.server_login_start(&mut t_server.rng(), setup, record, &req, cred, server_ctx, server_ids)?;
    let client = s.client_login_finish(cst, pw, &resp, client_ctx, client_ids, ksf);
    let server = match &client {
        Ok(lf) => Some(s.server_login_finish(s.clone_obj(&sst), &lf.fin)),
        Err(_) => None,
    };
    Ok(LoginOut {
        req,
        resp,
        server_state: sst,
        client,
        server,
    })
}

pub fn opt(b: &Option<BSpec>) -> Option<Vec<u8>> {
    b.as_ref().map(|b| b.bytes())
}

/// Resolve an `IdSpec` for the *client* identity.  The default spelling needs
/// the client's static public key, which only exists after registration; the
/// caller supplies it when known.
pub fn resolve_id(spec: &IdSpec, default_pk: &[u8]) -> Option<Vec<u8>> {
    spec.resolve(default_pk)
}

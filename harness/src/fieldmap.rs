//! Byte layout of every native encoding, derived from the suite's lengths.
//! Cross-checked at start-up against `serialize().len()` of real values.

use crate::proto::{Meta, Ty};

#[derive(Clone, Copy, Debug, PartialEq, Eq, Hash)]
pub enum FieldKind {
    /// element of the OPRF group (compressed SEC1 / ristretto encoding)
    OprfElem,
    /// scalar of the OPRF group
    OprfScalar,
    /// public key of the key-exchange group
    KePk,
    /// private key of the key-exchange group
    KeSk,
    /// 32-byte nonce
    Nonce,
    /// hash-length opaque bytes (MAC, key, seed, transcript hash)
    Hash,
    /// masked (server_pk || envelope): opaque on the wire
    Masked,
}

impl FieldKind {
    pub fn is_group_elem(self) -> bool {
        matches!(self, FieldKind::OprfElem | FieldKind::KePk)
    }
    pub fn is_scalar(self) -> bool {
        matches!(self, FieldKind::OprfScalar | FieldKind::KeSk)
    }
}

#[derive(Clone, Copy, Debug, PartialEq, Eq)]
pub struct Field {
    pub name: &'static str,
    pub kind: FieldKind,
    pub off: usize,
    pub len: usize,
}

pub fn fields(m: &Meta, ty: Ty) -> Vec<Field> {
    use FieldKind::*;
    let spec: Vec<(&'static str, FieldKind, usize)> = match ty {
        Ty::RegReq => vec![("blinded_element", OprfElem, m.noe)],
        Ty::RegResp => vec![
            ("evaluation_element", OprfElem, m.noe),
            ("server_s_pk", KePk, m.npk),
        ],
        Ty::RegUpload | Ty::ServerReg => vec![
            ("client_s_pk", KePk, m.npk),
            ("masking_key", Hash, m.nh),
            ("envelope_nonce", Nonce, m.nn),
            ("envelope_mac", Hash, m.nh),
        ],
        Ty::CredReq => vec![
            ("blinded_element", OprfElem, m.noe),
            ("client_nonce", Nonce, m.nn),
            ("client_e_pk", KePk, m.npk),
        ],
        Ty::CredResp => vec![
            ("evaluation_element", OprfElem, m.noe),
            ("masking_nonce", Nonce, m.nn),
            ("masked_response", Masked, m.npk + m.nn + m.nh),
            ("server_nonce", Nonce, m.nn),
            ("server_e_pk", KePk, m.npk),
            ("server_mac", Hash, m.nh),
        ],
        Ty::CredFin => vec![("client_mac", Hash, m.nh)],
        Ty::ServerSetup => vec![
            ("oprf_seed", Hash, m.nh),
            ("server_s_sk", KeSk, m.nsk),
            ("fake_sk", KeSk, m.nsk),
        ],
        Ty::ClientReg => vec![
            ("blind", OprfScalar, m.nok),
            ("blinded_element", OprfElem, m.noe),
        ],
        Ty::ClientLogin => vec![
            ("blind", OprfScalar, m.nok),
            ("blinded_element", OprfElem, m.noe),
            ("client_nonce_msg", Nonce, m.nn),
            ("client_e_pk", KePk, m.npk),
            ("client_e_sk", KeSk, m.nsk),
            ("client_nonce_state", Nonce, m.nn),
        ],
        Ty::ServerLogin => vec![
            ("km3", Hash, m.nh),
            ("hashed_transcript", Hash, m.nh),
            ("session_key", Hash, m.nh),
        ],
        Ty::PublicKey => vec![("pk", KePk, m.npk)],
        Ty::PrivateKey => vec![("sk", KeSk, m.nsk)],
        Ty::KeyPair => vec![("sk", KeSk, m.nsk)],
    };
    let mut off = 0;
    spec.into_iter()
        .map(|(name, kind, len)| {
            let f = Field {
                name,
                kind,
                off,
                len,
            };
            off += len;
            f
        })
        .collect()
}

pub fn field<'a>(m: &Meta, ty: Ty, name: &str) -> Field {
    fields(m, ty)
        .into_iter()
        .find(|f| f.name == name)
        .unwrap_or_else(|| panic!("HARNESS-BUG: no field {name} in {ty:?}"))
}

pub fn slice<'a>(m: &Meta, ty: Ty, name: &str, bytes: &'a [u8]) -> &'a [u8] {
    let f = field(m, ty, name);
    &bytes[f.off..f.off + f.len]
}

/// which field does byte offset `off` fall into?
pub fn field_at(m: &Meta, ty: Ty, off: usize) -> Option<Field> {
    fields(m, ty)
        .into_iter()
        .find(|f| off >= f.off && off < f.off + f.len)
}

pub fn splice(bytes: &[u8], f: &Field, replacement: &[u8]) -> Vec<u8> {
    assert_eq!(replacement.len(), f.len, "HARNESS-BUG: splice length");
    let mut v = bytes.to_vec();
    v[f.off..f.off + f.len].copy_from_slice(replacement);
    v
}

//! Byte layout of every native encoding, derived from the suite's lengths.
//! Cross-checked at start-up against `serialize().len()` of real values.

use crate::proto::{Meta, Ty};

#[derive(Clone, Copy, Debug, PartialEq, Eq, Hash)]
pub enum FieldKind {
    /// element of the OPRF group (compressed SEC1 / ristretto encoding)
    OprfElem,
    /// scalar of the OPRF group
    OprfScalar,
    /// public key of the key-exchange group
    KePk,
    /// private key of the key-exchange group
    KeSk,
    /// 32-byte nonce
    Nonce,
    /// hash-length opaque bytes (MAC, key, seed, transcript hash)
    Hash,
    /// masked (server_pk || envelope): opaque on the wire
    Masked,
}

impl FieldKind {
    pub fn is_group_elem(self) -> bool {
        matches!(self, FieldKind::OprfElem | FieldKind::KePk)
    }
    pub fn is_scalar(self) -> bool {
        matches!(self, FieldKind::OprfScalar | FieldKind::KeSk)
    }
}

#[derive(Clone, Copy, Debug, PartialEq, Eq)]
pub struct Field {
    pub name: &'static str,
    pub kind: FieldKind,
    pub off: usize,
    pub len: usize,
}

pub fn fields(m: &Meta, ty: Ty) -> Vec<Field> {
    use FieldKind::*;
    let spec: Vec<(&'static str, FieldKind, usize)> = match ty {
        Ty::RegReq => vec![("blinded_element", OprfElem, m.noe)],
        Ty::RegResp => vec![
            ("evaluation_element", OprfElem, m.noe),
            ("server_s_pk", KePk, m.npk),
        ],
        Ty::RegUpload | Ty::ServerReg => vec![
            ("client_s_pk", KePk, m.npk),
            ("masking_key", Hash, m.nh),
            ("envelope_nonce", Nonce, m.nn),
            ("envelope_mac", Hash, m.nh),
        ],
        Ty::CredReq => vec![
            ("blinded_element", OprfElem, m.noe),
            ("client_nonce", Nonce, m.nn),
            ("client_e_pk", KePk, m.npk),
        ],
        Ty::CredResp => vec![
            ("evaluation_element", OprfElem, m.noe),
            ("masking_nonce", Nonce, m.nn),
            ("masked_response", Masked, m.npk + m.nn + m.nh),
            ("server_nonce", Nonce, m.nn),
            ("server_e_pk", KePk, m.npk),
            ("server_mac", Hash, m.nh),
        ],
        Ty::CredFin => vec![("client_mac", Hash, m.nh)],
        Ty::ServerSetup => vec![
            ("oprf_seed", Hash, m.nh),
            ("server_s_sk", KeSk, m.nsk),
            ("fake_sk", KeSk, m.nsk),
        ],
        Ty::ClientReg => vec![
            ("blind", OprfScalar, m.nok),
            ("blinded_element", OprfElem, m.noe),
        ],
        Ty::ClientLogin => vec![
            ("blind", OprfScalar, m.nok),
            ("blinded_element", OprfElem, m.noe),
            ("client_nonce_msg", Nonce, m.nn),
            ("client_e_pk", KePk, m.npk),
            ("client_e_sk", KeSk, m.nsk),
            ("client_nonce_state", Nonce, m.nn),
        ],
        Ty::ServerLogin => vec![
            ("km3", Hash, m.nh),
            ("hashed_transcript", Hash, m.nh),
            ("session_key", Hash, m.nh),
        ],
        Ty::PublicKey => vec![("pk", KePk, m.npk)],
        Ty::PrivateKey => vec![("sk", KeSk, m.nsk)],
        Ty::KeyPair => vec![("sk", KeSk, m.nsk)],
    };
    let mut off = 0;
    spec.into_iter()
        .map(|(name, kind, len)| {
            let f = Field {
                name,
                kind,
                off,
                len,
            };
            off += len;
            f
        })
        .collect()
}

pub fn field<'a>(m: &Meta, ty: Ty, name: &str) -> Field {
    fields(m, ty)
        .into_iter()
        .find(|f| f.name == name)
        .unwrap_or_else(|| panic!("HARNESS-BUG: no field {name} in {ty:?}"))
}

pub fn slice<'a>(m: &Meta, ty: Ty, name: &str, bytes: &'a [u8]) -> &'a [u8] {
    let f = field(m, ty, name);
    &bytes[f.off..f.off + f.len]
}

/// which field does byte offset `off` fall into?
pub fn field_at(m: &Meta, ty: Ty, off: usize) -> Option<Field> {
    fields(m, ty)
        .into_iter()
        .find(|f| off >= f.off && off < f.off + f.len)
}

pub fn splice(bytes: &[u8], f: &Field, replacement: &[u8]) -> Vec<u8> {
    assert_eq!(replacement.len(), f.len, "HARNESS-BUG: splice length");
    let mut v = bytes.to_vec();
    v[f.off..f.off + f.len].copy_from_slice(replacement);
    v
}

/// Alterations of several bytes of `base[off..off+len]` at once that a sloppy comparison might not
/// notice although every single-byte change is caught: differences that cancel under XOR (the same
/// bits flipped in two or three bytes), that preserve the byte sum (+1/-1), or that keep the
/// multiset of bytes (transposition, rotation, reversal).  `dense` = every position, else every 4th
/// for the sum / triple classes.
pub fn multi_byte_mutants(base: &[u8], off: usize, len: usize, dense: bool) -> Vec<(String, Vec<u8>)> {
    let mut out = Vec::new();
    let end = off + len;
    if len < 2 {
        return out;
    }
    for i in off..end - 1 {
        let bit = 1u8 << ((i - off) % 8);
        let mut v = base.to_vec();
        v[i] ^= bit;
        v[i + 1] ^= bit;
        out.push((format!("pairflip@{i},{}^{bit:02x}", i + 1), v));
        if base[i] != base[i + 1] {
            let mut v = base.to_vec();
            v.swap(i, i + 1);
            out.push((format!("swap@{i},{}", i + 1), v));
        }
        if dense || (i - off) % 4 == 0 {
            let mut v = base.to_vec();
            v[i] = v[i].wrapping_add(1);
            v[i + 1] = v[i + 1].wrapping_sub(1);
            out.push((format!("plusminus@{i},{}", i + 1), v));
            if i + 2 < end {
                let mut v = base.to_vec();
                v[i] ^= 0x0f;
                v[i + 1] ^= 0xf0;
                v[i + 2] ^= 0xff;
                out.push((format!("triple@{i}"), v));
            }
        }
    }
    // first and last byte of the field, every bit
    for b in 0..8 {
        let mut v = base.to_vec();
        v[off] ^= 1 << b;
        v[end - 1] ^= 1 << b;
        out.push((format!("pairflip@{off},{}^{:02x}", end - 1, 1u8 << b), v));
    }
    let mut v = base.to_vec();
    v[off..end].rotate_left(1);
    out.push((format!("rotate@{off}+{len}"), v));
    let mut v = base.to_vec();
    v[off..end].reverse();
    out.push((format!("reverse@{off}+{len}"), v));
    out.retain(|(_, v)| v != base);
    out
}
